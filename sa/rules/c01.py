"""C01 - quantize() returns a well-formed model or raises (index/sentinel discipline)."""
from __future__ import annotations

import ast

from sa import callgraph
from sa import cfg as cfgmod
from sa import defuse
from sa import index
from sa import tables
from sa.rules import common
from sa.rules import shared

EXPLANATION = (
    'Index and sentinel discipline of the graph rewriting, decided on code '
    'shape: must-call of the name-uniqueness and instruction-validity guards; '
    'construction of the inserted QUANTIZE/DEQUANTIZE operator (fresh op, '
    'opcode from add_op_code of the matching builtin, inputs/outputs, exactly '
    'one insert, TransformationInfo consistent with it); helper contracts; '
    'insert position >= producer + 1; the graph-input/-output pseudo id -1 '
    'never reaches an index expression unguarded; no truthiness test on an '
    'id (0 is valid); op-id map maintained after every transformation; '
    'horizontal grouping of consumers is a partition by equality; decision '
    'tables of the graph-info generator (own id / producer / one consumer entry '
    'per consuming op / -1 for outputs) and of the performer\'s id translation '
    '(producer and consumers under the op-id maps, one entry per entry).'
)
LEVEL_TEXT = (
    'Decides necessary conditions of well-formedness that hold or fail '
    'independently of the model: they concern the topologies the suite does '
    'not contain (producer at index 0, tensor both consumed and a graph '
    'output, unconsumed tensors, several subgraphs) because those are exactly '
    'the cases where the sentinel -1 or the falsy id 0 reaches an index '
    'expression - a property of the code, found without constructing the '
    'topology. Loadability by the LiteRT interpreter is not decided.'
    ' Decision tables / simulations (abstract interpreter, exhaustive over their listed lattices only): graph-info generator, performer id translation, op-id bookkeeping after insertions and replacements, graph rewrite against a reference rewriting, whole pipeline on label models, blockwise FULLY_CONNECTED replacement by the real emulated_subchannel transformation with a structural oracle (index ranges, names, one producer, execution order, the chain from the FC input to the FC output, element counts of the reshapes).'
)
LEVEL_NOTE = (
    'Trusted: sa CFG/def-use engines; flatbuffer object model (OperatorT, '
    'TensorT). Blind spots listed in DESIGN.md section 8 (producer-id formula '
    'of _update_instructions, consumer grouping).'
)
TECHNIQUE = 'CFG must-call / guarded-use (sentinel taint) / construction-shape rules on ast + abstract interpretation of the repository functions over a finite lattice (decision tables / label-model simulations compared with an independent expectation) (static)'

PERF = 'transformation_performer:TransformationPerformer'
TIG = 'transformation_instruction_generator:TransformationInstructionsGenerator'
PG = 'params_generator:ParamsGenerator'
ID_ATTRS = {'producer', 'tensor_id', 'op_id', 'subgraph_id', 'subgraph_op_id',
            'subgraph_op_index', 'opcodeIndex', 'output_tensor_id', 'tensorIndex',
            'subgraphIndex'}


def r1_name_uniqueness(ctx):
  R = 'C01.R1'
  ctx.rule(R, 'tensor names are checked unique (model-wide) before any plan is generated', floor=3)
  init = ctx.repo.func(f'{PG}.__init__')
  ctx.instance(R)
  g = cfgmod.build(init.node)
  via = {n.id for n in g.nodes if any(common.call_name(c).endswith('_check_tensor_names_are_unique') for c in n.calls())}
  ctx.check(R, bool(via) and g.every_path_passes(g.entry.id, g.exit.id, via), init.node, init, '_check_tensor_names_are_unique on every path',
            'a ParamsGenerator can be constructed without the tensor-name uniqueness check (plans are keyed by tensor name)')
  chk = ctx.repo.func(f'{PG}._check_tensor_names_are_unique')
  ctx.instance(R)
  gc = cfgmod.build(chk.node)
  loops = [n for n in gc.nodes if n.kind == 'for']
  srcs = [ast.unparse(l.ast.iter) for l in loops]
  ctx.check(R, len(loops) == 2 and srcs[0].endswith('.subgraphs') and srcs[1].endswith('.tensors'), chk.node, chk, f'loops {srcs}', 'every tensor of every subgraph must be checked')
  sets = [n for n in gc.nodes if n.kind == 'stmt' and isinstance(n.ast, ast.Assign) and isinstance(n.ast.value, ast.Call) and common.call_name(n.ast.value) == 'set']
  ok = len(sets) == 1
  if ok and loops:
    ok = sets[0].id not in gc.loop_body_nodes(loops[0].id)
  ctx.check(R, ok, chk.node, chk, 'set of seen names created outside the subgraph loop',
            'the set of seen names is re-created per subgraph: equal names in two subgraphs go unnoticed and their plans overwrite each other')
  if ok and len(loops) == 2:
    var = sets[0].ast.targets[0].id
    raises = [n for n in gc.nodes if n.kind == 'stmt' and isinstance(n.ast, ast.Raise)]
    adds = [n for n in gc.nodes if any(isinstance(c.func, ast.Attribute) and c.func.attr == 'add' and ast.unparse(c.func.value) == var for c in n.calls())]
    guard = [n for n in gc.nodes if n.kind == 'if' and var in ast.unparse(n.ast.test) and ' in ' in ast.unparse(n.ast.test)]
    ctx.check(R, len(raises) == 1 and len(guard) == 1 and len(adds) == 1, chk.node, chk, 'raise if seen else add', 'duplicate names must raise and new names must be recorded')
    if adds:
      mn, mx = gc.iteration_count(loops[1].id, {adds[0].id} | {r.id for r in raises})
      ctx.check(R, mn == 1, loops[1].ast, chk, 'every tensor is either recorded or rejected', 'a tensor can be skipped by the uniqueness check')
  q = ctx.repo.func('quantizer:Quantizer.quantize')
  ctx.instance(R)
  inl = defuse.Inliner(ctx.repo, max_depth=0)
  mm = [c for c in common.calls_in(ctx.repo.func('quantizer:Quantizer._get_quantized_model').node) if common.call_name(c).endswith('.modify_model')]
  gp = [c for c in common.calls_in(ctx.repo.func('quantizer:Quantizer._get_quantization_params').node) if common.call_name(c).endswith('.generate_quantization_parameters')]
  ctx.check(R, len(mm) == 1 and len(gp) == 1, q.node, q, 'plan from ParamsGenerator feeds ModelModifier', 'the model is modified with a plan that did not come from ParamsGenerator')
  # the argument of _get_quantized_model is (a local holding) the result of _get_quantization_params of this very call
  calls_m = [c for c in common.calls_in(q.node) if common.call_name(c).endswith('_get_quantized_model')]
  ok = len(calls_m) == 1 and len(calls_m[0].args) == 1
  if ok:
    src = inl.inline(q, calls_m[0].args[0])
    ok = isinstance(src, ast.Call) and common.call_name(src).endswith('_get_quantization_params')
  ctx.check(R, ok, q.node, q, 'quant_params -> _get_quantized_model', 'the modifier must receive exactly the plan generated in this call')


def r2_instruction_validity(ctx):
  R = 'C01.R2'
  ctx.rule(R, 'every tensor\'s instruction list is validated before it is returned', floor=1)
  f = ctx.repo.func(f'{TIG}._quant_params_to_transformation_insts')
  ctx.instance(R)
  g = cfgmod.build(f.node)
  via = {n.id for n in g.nodes if any(common.call_name(c).endswith('_check_tensor_transformation_instructions_valid') for c in n.calls())}
  ctx.check(R, bool(via) and g.every_path_passes(g.entry.id, g.exit.id, via), f.node, f, 'validity check on every path', 'instructions can be returned without the quantized/unquantized validity check')
  for n in via:
    call = [c for c in g.nodes[n].calls() if common.call_name(c).endswith('_check_tensor_transformation_instructions_valid')][0]
    arg = ast.unparse(call.args[0]) if call.args else ''
    rets = [r for r in common.walk_no_nested(f.node) if isinstance(r, ast.Return) and r.value is not None]
    ctx.check(R, all(ast.unparse(r.value) == arg for r in rets), call, f, call, 'the validated object is not the one returned')
    # the instructions were assigned before the check
    assigns = [m for m in g.nodes if m.kind == 'stmt' and isinstance(m.ast, ast.Assign) and ast.unparse(m.ast.targets[0]) == f'{arg}.instructions']
    ctx.check(R, assigns and all(g.every_path_passes(g.entry.id, n, {m.id}) for m in assigns[-1:]), call, f, call, 'the check runs before the final instruction list is attached')
  top = ctx.repo.func(f'{TIG}.quant_params_to_transformation_insts')
  calls = [c for c in common.calls_in(top.node) if common.call_name(c).endswith('_quant_params_to_transformation_insts')]
  ctx.check(R, len(calls) == 1, top.node, top, 'per-tensor conversion', 'every tensor must go through _quant_params_to_transformation_insts')


def _ctor_of(f, name):
  defs = [d for d in defuse.own_assignments(f.node).get(name, []) if d is not None]
  if len(defs) == 1 and isinstance(defs[0], ast.Call):
    return common.call_name(defs[0])
  return None


def r3_inserted_op(ctx):
  R = 'C01.R3'
  ctx.rule(R, 'the inserted QUANTIZE/DEQUANTIZE operator is well-formed and reported correctly', floor=2)
  trans = shared.insertion_transformations(ctx)
  want = {'ADD_QUANTIZE': 'QUANTIZE', 'ADD_DEQUANTIZE': 'DEQUANTIZE'}
  for key, builtin in want.items():
    f = trans.get(key)
    if f is None:
      raise index.AnalysisError(f'{key} is not registered')
    ctx.instance(R)
    ti = f.pos_params[0]
    inl = defuse.Inliner(ctx.repo, max_depth=0)
    g = cfgmod.build(f.node)
    inserts = [n for n in g.nodes for c in n.calls() if isinstance(c.func, ast.Attribute) and c.func.attr == 'insert' and ast.unparse(c.func.value).endswith('.operators')]
    ok = len(inserts) == 1 and g.every_path_passes(g.entry.id, g.exit.id, {inserts[0].id})
    if not ctx.check(R, ok, f.node, f, 'exactly one operators.insert on every path', f'{f.name} must insert exactly one operator on every path to return'):
      continue
    call = [c for c in inserts[0].calls() if isinstance(c.func, ast.Attribute) and c.func.attr == 'insert'][0]
    ctx.check(R, ast.unparse(call.func.value) == f'{ti}.subgraph.operators', call, f, call, 'the operator must be inserted into the instruction\'s own subgraph')
    pos, opn = call.args[0], call.args[1]
    opname = opn.id if isinstance(opn, ast.Name) else None
    ctx.check(R, opname is not None and (_ctor_of(f, opname) or '').endswith('OperatorT'), call, f, call, 'the inserted operator must be a freshly constructed OperatorT')
    attrs = {}
    for n in common.walk_no_nested(f.node):
      if isinstance(n, ast.Assign) and isinstance(n.targets[0], ast.Attribute) and isinstance(n.targets[0].value, ast.Name) and n.targets[0].value.id == opname:
        attrs[n.targets[0].attr] = n.value
    oc = defuse.norm(inl.inline(f, attrs.get('opcodeIndex'))) if 'opcodeIndex' in attrs else ''
    ctx.check(R, 'add_op_code(' in oc and f'BuiltinOperator.{builtin},' in oc and f'{ti}.op_codes' in oc, f.node, f, f'opcodeIndex = {oc[:90]}',
              f'{key}: the operator code must come from add_op_code(BuiltinOperator.{builtin}, <model operator codes>)')
    newid = None
    for name, vals in defuse.own_assignments(f.node).items():
      if len(vals) == 1 and isinstance(vals[0], ast.Call) and common.call_name(vals[0]).endswith('add_new_activation_tensor'):
        newid = name
        newcall = vals[0]
    if not ctx.check(R, newid is not None, f.node, f, 'new tensor', 'the output tensor must be created with add_new_activation_tensor'):
      continue
    ctx.check(R, 'outputs' in attrs and ast.unparse(attrs['outputs']) == f'[{newid}]', f.node, f, 'op.outputs', 'the inserted operator must produce exactly the new tensor')
    ctx.check(R, 'inputs' in attrs and ast.unparse(attrs['inputs']) == f'[{ti}.tensor_id]', f.node, f, 'op.inputs', 'the inserted operator must read exactly the instruction\'s tensor')
    nargs = [ast.unparse(a) for a in newcall.args]
    ctx.check(R, len(nargs) == 4 and nargs[3] == f'{ti}.subgraph' and 'FLOAT32' in nargs[2] and nargs[1].endswith('.shape') and '.name +' in nargs[0], newcall, f, newcall,
              'the new tensor must copy the shape of the source tensor, derive its name from it, and live in the same subgraph')
    shp = defuse.norm(inl.inline(f, newcall.args[1]))
    ctx.check(R, shp == f'{ti}.subgraph.tensors[{ti}.tensor_id].shape', newcall, f, newcall.args[1], 'shape must be that of the instruction\'s tensor')
    rets = [n for n in common.walk_no_nested(f.node) if isinstance(n, ast.Return)]
    for r in rets:
      v = r.value
      okr = isinstance(v, ast.Call) and common.call_name(v).endswith('TransformationInfo')
      kw = {k.arg: ast.unparse(k.value) for k in v.keywords} if okr else {}
      if okr and v.args:
        for nme, a in zip(('op_id', 'num_ops_added', 'output_tensor_id'), v.args):
          kw[nme] = ast.unparse(a)
      ctx.check(R, okr and kw.get('op_id') == ast.unparse(pos) and kw.get('num_ops_added') == '1' and kw.get('output_tensor_id') == newid, r, f, r,
                'TransformationInfo must report the insert position, one added op and the new tensor id')


def r4_helpers(ctx):
  """Helper contracts as tables (the helpers are run by the path interpreter on small stand-in models):
  add_op_code returns the index of the FIRST entry with the requested builtin code and appends nothing, or appends one
  entry with that code and returns its index; add_new_activation_tensor / add_new_constant_tensor append exactly one
  tensor (and, for a constant, one buffer) and return the index the tensor has AFTER the call."""
  R = 'C01.R4'
  ctx.rule(R, 'helper contracts (tables): add_op_code returns the index of the code; new tensors get the id they are appended at', floor=3)
  from sa import absint, consteval  # pylint: disable=g-import-not-at-top
  from sa.consteval import Ext, Obj  # pylint: disable=g-import-not-at-top
  tu = ctx.repo.mod('transformations.transformation_utils')
  f = tu.func('add_op_code')
  ctx.instance(R)
  BO = consteval.schema_enum('BuiltinOperator')
  hooks = {
      'schema_py_generated.OperatorCodeT': lambda a_, k: Obj('x:OperatorCodeT', {'builtinCode': 0}),
      'schema_py_generated.TensorT': lambda a_, k: Obj('x:TensorT', {}),
      'schema_py_generated.BufferT': lambda a_, k: Obj('x:BufferT', {'data': None}),
  }
  it = absint.Interp(ctx.repo, ctx.ev, hooks=hooks)
  tv = lambda x: x.value if isinstance(x, Ext) else x
  mk = lambda code: Obj('x:OperatorCodeT', {'builtinCode': Ext('BuiltinOperator.x', code)})
  for codes, ask in (([3, 9, 6], 9), ([3, 9, 6], 3), ([3, 9, 6, 9], 9), ([3, 9, 6], 114), ([], 6), ([6], 6), ([0, 3], 0)):
    lst = [mk(c) for c in codes]
    before = list(lst)
    outs = it.outcomes(f, [Ext('BuiltinOperator.asked', ask), lst], copy_args=False)
    label = f'codes {codes}, requested {ask}'
    if len(outs) != 1 or outs[0].kind != 'return':
      ctx.check(R, False, f.node, f, label, f'not decided: {[o.short()[:80] for o in outs]}')
      continue
    got = outs[0].value
    now = [tv(c.fields.get('builtinCode')) if isinstance(c, Obj) else None for c in lst]
    if ask in codes:
      ok = got == codes.index(ask) and now == codes and all(x is y for x, y in zip(lst, before))
      ctx.check(R, ok, f.node, f, f'{label} -> index {got!r}, table {now}', f'an existing operator code must be found and its index {codes.index(ask)} returned; the table must not change')
    else:
      ok = got == len(codes) and now == codes + [ask]
      ctx.check(R, ok, f.node, f, f'{label} -> index {got!r}, table {now}', f'a missing operator code must be appended with the requested builtin code and its index {len(codes)} returned')
  for name in ('add_new_activation_tensor', 'add_new_constant_tensor'):
    h = tu.func(name)
    ctx.instance(R)
    for n_t, n_b in ((0, 1), (3, 2), (5, 7)):
      tensors = [Obj('x:TensorT', {'name': f't{k}'.encode(), 'buffer': 0}) for k in range(n_t)]
      bufs = [Obj('x:BufferT', {'data': None}) for _ in range(n_b)]
      sg = Obj('x:SubGraphT', {'tensors': tensors})
      from sa.ndarr import NdArr  # pylint: disable=g-import-not-at-top
      args = [b'new', [1, 2], Ext('TensorType.FLOAT32', 0), sg] if name == 'add_new_activation_tensor' else [b'new', NdArr((2,), [1, 2], 'i'), Ext('TensorType.INT32', 2), sg, bufs]
      outs = it.outcomes(h, args, copy_args=False)
      label = f'{name}: {n_t} tensors, {n_b} buffers'
      if len(outs) != 1 or outs[0].kind != 'return':
        ctx.check(R, False, h.node, h, label, f'not decided: {[o.short()[:80] for o in outs]}')
        continue
      got = outs[0].value
      T = sg.fields['tensors']
      ok = isinstance(T, list) and len(T) == n_t + 1 and got == n_t and isinstance(T[n_t], Obj) and T[n_t].fields.get('name') == b'new' and all(x is y for x, y in zip(T, tensors))
      ctx.check(R, ok, h.node, h, f'{label} -> id {got!r}, {len(T) if isinstance(T, list) else T!r} tensors', f'{name}: exactly one tensor must be appended and the returned id must be its index {n_t}')
      if not ok:
        continue
      nb = T[n_t].fields.get('buffer')
      if name == 'add_new_activation_tensor':
        ctx.check(R, nb == 0, h.node, h, f'{label}: buffer {nb!r}', 'activation tensors must point at the empty buffer 0')
      else:
        ok = len(bufs) == n_b + 1 and nb == n_b and isinstance(bufs[n_b], Obj) and bufs[n_b].fields.get('data') is not None
        ctx.check(R, ok, h.node, h, f'{label}: buffer {nb!r}, {len(bufs)} buffers', f'the constant must get a new buffer with its data, appended at index {n_b}, and point at it')


def lower_bounds(f, expr, depth=0):
  """Set of normalised expressions e such that value(expr) >= e."""
  out = {defuse.norm(expr)}
  if depth > 6:
    return out
  if isinstance(expr, ast.Call) and common.call_name(expr) == 'max':
    for a in expr.args:
      out |= lower_bounds(f, a, depth + 1)
  elif isinstance(expr, ast.Name):
    defs = [d for d in defuse.own_assignments(f.node).get(expr.id, []) if d is not None]
    if len(defs) == 1:
      out |= lower_bounds(f, defs[0], depth + 1)
  elif isinstance(expr, ast.IfExp):
    out |= lower_bounds(f, expr.body, depth + 1) & lower_bounds(f, expr.orelse, depth + 1)
  return out


def r5_insert_after_producer(ctx):
  R = 'C01.R5'
  ctx.rule(R, 'the new operator is inserted after the producer of its input', floor=2)
  trans = shared.insertion_transformations(ctx)
  for key in ('ADD_QUANTIZE', 'ADD_DEQUANTIZE'):
    f = trans[key]
    ctx.instance(R)
    ti = f.pos_params[0]
    for c in common.calls_in(f.node):
      if isinstance(c.func, ast.Attribute) and c.func.attr == 'insert' and ast.unparse(c.func.value).endswith('.operators'):
        lbs = lower_bounds(f, c.args[0])
        ok = any(lb.replace(' ', '') in (f'{ti}.producer+1', f'1+{ti}.producer') for lb in lbs)
        ctx.check(R, ok, c, f, c, f'insert position {sorted(lbs)[:3]} is not provably >= producer + 1: the op can be placed before the operator that produces its input')
        first = [lb for lb in lbs if 'min(' in lb]
        ctx.check(R, bool(first) or len(lbs) >= 2, c, f, c, 'insert position must also be bounded by the first consumer')


def _neg_guard_edges(g, var):
  """(node, label) edges on which `var` is known to be >= 0."""
  safe = set()
  for n in g.nodes:
    if n.kind != 'if':
      continue
    t = defuse.norm(n.ast.test).replace(' ', '')
    if t in (f'{var}<0', f'{var}==-1', f'{var}<=-1'):
      safe.add((n.id, 'F'))
    if t in (f'{var}>=0', f'{var}!=-1', f'{var}>-1'):
      safe.add((n.id, 'T'))
  return safe


def r6_sentinel(ctx):
  R = 'C01.R6'
  ctx.rule(R, 'the pseudo id -1 (graph input / graph output) never reaches an index expression unguarded', floor=4)
  funcs = [ctx.repo.func(f'{PERF}._apply_single_transformation')]
  trans = shared.insertion_transformations(ctx)
  cg = callgraph.get(ctx)
  roots = [trans[k] for k in ('ADD_QUANTIZE', 'ADD_DEQUANTIZE')]
  for fq in cg.reachable([r.fq for r in roots]):
    fn = ctx.repo.func(fq)
    if fn.module.short.startswith('transformations.') and fn not in funcs:
      funcs.append(fn)
  uses = 0
  for f in funcs:
    g = cfgmod.build(f.node)
    for l in [n for n in g.nodes if n.kind == 'for']:
      it = ast.unparse(l.ast.iter)
      if not (it.endswith('.consumers') or it == 'consumers') or not isinstance(l.ast.target, ast.Name):
        continue
      var = l.ast.target.id
      ctx.instance(R)
      safe = _neg_guard_edges(g, var)
      body = g.loop_body_nodes(l.id)
      for n in body:
        nd = g.nodes[n]
        for x in nd.walk():
          if isinstance(x, ast.Subscript) and any(isinstance(y, ast.Name) and y.id == var for y in ast.walk(x.slice)):
            uses += 1
            starts = [d for d, lab in g.succ[l.id] if lab == 'loop']
            ok = n not in g.reachable(starts, blocked={l.id}, blocked_edges=safe)
            ctx.check(R, ok, x, f, x,
                      f'`{var}` iterates a consumer list that may contain the graph-output pseudo id -1 and is used as an index without a `< 0` guard: '
                      'operators[-1] / map[-1] silently address the LAST operator')
    # min(<consumers>) may be -1: allowed only inside max(producer + 1, .)
    for c in common.calls_in(f.node):
      if common.call_name(c) == 'min' and c.args and ast.unparse(c.args[0]).endswith('consumers'):
        ctx.instance(R)
        st = common.stmt_of(f.node, c)
        name = st.targets[0].id if isinstance(st, ast.Assign) and isinstance(st.targets[0], ast.Name) else None
        bad = []
        parents = common.parents_map(f.node)
        sites = [c] if name is None else [n for n in common.walk_no_nested(f.node) if isinstance(n, ast.Name) and n.id == name and isinstance(n.ctx, ast.Load)]
        for s in sites:
          p = parents.get(id(s))
          if isinstance(p, ast.Call) and common.call_name(p) == 'max':
            continue
          if isinstance(p, (ast.Subscript, ast.Slice)) or (isinstance(p, ast.Call) and any(a is s for a in p.args) and not common.call_name(p) == 'max'):
            bad.append(p)
        uses += 1
        ctx.check(R, not bad, c, f, c, 'min(consumers) can be -1 (graph output) and is used as an index / slice start / map position')
  if uses < 4:
    raise index.AnalysisError(f'{R}: only {uses} sentinel uses analysed')
  # (producer None / -1 before the map lookup: decided by the id-translation table C01.R12)
  f = funcs[0]
  # the map shift start is derived from the insert position, not from the consumer list
  upd = [c for c in common.calls_in(f.node) if common.call_name(c).endswith('_update_op_id_map')]
  for c in upd:
    a = defuse.norm(defuse.Inliner(ctx.repo, max_depth=0).inline(f, c.args[1])) if len(c.args) > 1 else ''
    ctx.check(R, 'min(' not in a or 'max(' in a, c, f, c, f'the op-id map is shifted from {a}: min(consumers) is -1 when the tensor is a graph output, shifting only the last entry')


def r7_no_truthiness_on_ids(ctx):
  R = 'C01.R7'
  ctx.rule(R, 'no truthiness test on an operator / tensor / subgraph id (0 is a valid id)', floor=1)
  mods = ['transformation_performer', 'transformation_instruction_generator', 'model_modifier', 'params_generator',
          'transformations.quant_insert', 'transformations.dequant_insert', 'transformations.quantize_tensor',
          'transformations.transformation_utils', 'transformations.emulated_subchannel']
  n_tests = 0
  for short in mods:
    m = ctx.repo.mod(short)
    for f in m.functions.values():
      tests = []
      for n in common.walk_no_nested(f.node):
        if isinstance(n, (ast.If, ast.While, ast.IfExp)):
          tests.append(n.test)
        if isinstance(n, ast.Assert):
          tests.append(n.test)
      operands = []
      for t in tests:
        stack = [t]
        while stack:
          e = stack.pop()
          if isinstance(e, ast.BoolOp):
            stack += e.values
          elif isinstance(e, ast.UnaryOp) and isinstance(e.op, ast.Not):
            stack.append(e.operand)
          else:
            operands.append(e)
      for n in common.walk_no_nested(f.node):
        if isinstance(n, ast.BoolOp) and not any(n is t for t in tests):
          operands += [v for v in n.values[:-1]]
      for e in operands:
        n_tests += 1
        if isinstance(e, ast.Attribute) and e.attr in ID_ATTRS:
          ctx.check(R, False, e, f, e, f'`{ast.unparse(e)}` is an id and is tested for truthiness: id 0 (first operator / tensor / subgraph) is treated as absent')
        elif isinstance(e, ast.Name) and e.id in ('producer', 'tensor_id', 'op_id', 'subgraph_id', 'consumer_id', 'original_op_id', 'new_tensor_id', 'producer_id'):
          ctx.check(R, False, e, f, e, f'`{e.id}` is an id and is tested for truthiness: 0 is a valid id')
  ctx.instance(R, n_tests)
  ctx.rule(R).obligations += 1
  ctx.rule(R).discharged += 1
  ctx.sample(R, {'truthiness_operands_examined': n_tests, 'exempt': 'tensor.buffer (buffer 0 is the reserved empty buffer)'})


def r8_op_id_maps(ctx):
  R = 'C01.R8'
  ctx.rule(R, 'op-id maps: one per subgraph, reset per call, updated after every transformation from its TransformationInfo', floor=3)
  f = ctx.repo.func(f'{PERF}._apply_single_transformation')
  ctx.instance(R)
  g = cfgmod.build(f.node)
  reg = [n for n in g.nodes if any(isinstance(c.func, ast.Subscript) and '_transformation_registration' in ast.unparse(c.func) for c in n.calls())]
  if not ctx.check(R, len(reg) == 1, f.node, f, 'registry dispatch', 'the transformation must be dispatched through the registry exactly once'):
    return
  tinfo = reg[0].ast.targets[0].id if isinstance(reg[0].ast, ast.Assign) and isinstance(reg[0].ast.targets[0], ast.Name) else None
  for name in ('_update_instructions', '_update_op_id_map'):
    via = {n.id for n in g.nodes if any(common.call_name(c).endswith(name) for c in n.calls())}
    ok = bool(via) and g.every_path_passes(reg[0].id, g.exit.id, via)
    ctx.check(R, ok, f.node, f, f'{name} after the transformation on every path', f'{name} is skipped on some path: later instructions address stale operator positions')
    for n in via:
      c = [c for c in g.nodes[n].calls() if common.call_name(c).endswith(name)][0]
      ctx.check(R, tinfo is not None and any(tinfo in ast.unparse(a) for a in c.args), c, f, c, f'{name} must be fed from the TransformationInfo returned by the transformation')
      ctx.check(R, any('subgraph_id' in ast.unparse(a) for a in c.args), c, f, c, f'{name} must be told the subgraph of the instruction')
  # (dispatch key and the fields of the TransformationInput: decision table C01.R12)
  # The maps themselves, through the class's own functions and whatever representation they use (lists, arrays ...):
  # create -> identity; update(g, start, n) -> positions from `start` on move by n in subgraph g only; the "first original
  # operator at or after a position" query answers on the state these two built. Subgraphs of very different lengths stand
  # next to each other. (How the maps are used - producer / consumer translation - is decided by C01.R14 / R15.)
  c = ctx.repo.func(f'{PERF}._create_op_id_map')
  u = ctx.repo.func(f'{PERF}._update_op_id_map')
  fo = ctx.repo.cls(PERF).methods.get('_first_original_op_at_or_after')
  ctx.instance(R)
  from sa.consteval import Obj  # pylint: disable=g-import-not-at-top
  from sa.ndarr import NdArr  # pylint: disable=g-import-not-at-top
  from sa import absint  # pylint: disable=g-import-not-at-top
  it = tables.interp(ctx)

  def at(m, g, i):
    row = m[g] if isinstance(m, list) else (m.getitem(g) if isinstance(m, NdArr) else None)
    if isinstance(row, NdArr):
      return row.getitem(i)
    return row[i] if isinstance(row, list) else None

  def snapshot(selfo, sizes):
    m = selfo.fields['_original_op_id_map']
    try:
      return [[at(m, g, i) for i in range(s)] for g, s in enumerate(sizes)]
    except (IndexError, TypeError, KeyError):
      return None
  scenarios = [   # (operators per subgraph, [(subgraph, start, n) ...], [(subgraph, position) ...])
      ([2], [], [(0, 0), (0, 1), (0, 2)]),
      ([2, 0, 3], [(2, 1, 2)], [(2, 0), (2, 1), (2, 2), (2, 3), (2, 5), (1, 0), (0, 1)]),
      ([], [], []),
      ([6, 4, 1], [(1, 2, 1)], [(1, 2), (1, 3), (1, 5), (1, 0), (2, 0), (2, 1)]),
      ([1, 6], [(0, 0, 2), (1, 5, 1), (0, 0, 1)], [(0, 0), (0, 3), (0, 4), (1, 5), (1, 6), (1, 7)]),
      ([5, 1, 2], [(1, 1, 3), (2, 0, 2)], [(1, 0), (1, 1), (2, 0), (2, 2), (2, 3), (2, 4)]),
  ]
  for sizes, updates, queries in scenarios:
    selfo = Obj(PERF, {'_original_op_id_map': [], '_added_op_id_map': []})
    model = Obj('x:ModelT', {'subgraphs': [Obj('x:SubGraphT', {'operators': [f'op{k}' for k in range(s)]}) for s in sizes]})
    outs = it.outcomes(c, [selfo, model], copy_args=False)
    want = [list(range(s)) for s in sizes]
    got = snapshot(selfo, sizes) if len(outs) == 1 and outs[0].kind == 'return' else None
    am = selfo.fields['_added_op_id_map']
    # (the added-op lists may be shared: only the entry appended last is ever read back - see the twin C01.twin_shared_added_lists)
    ok = got == want and isinstance(am, list) and len(am) == len(sizes) and all(isinstance(x, list) and not x for x in am)
    if not ctx.check(R, ok, c.node, c, f'subgraphs with {sizes} operators -> positions {got!r}, added-op lists {am!r}',
                     'after _create_op_id_map every operator of every subgraph must be at its own position and every subgraph must have an empty added-op list'):
      continue
    good = True
    for g, start, n in updates:
      outs = it.outcomes(u, [selfo, g, start, n], copy_args=False)
      for i in range(start, sizes[g]):
        want[g][i] += n
      got = snapshot(selfo, sizes) if len(outs) == 1 and outs[0].kind == 'return' else None
      good = ctx.check(R, got == want, u.node, u, f'subgraphs with {sizes} operators, _update_op_id_map({g}, {start}, {n}) -> positions {got!r}',
                       f'expected {want!r}: every original operator of subgraph {g} at or after index {start} moves by {n}, nothing else moves')
      if not good:
        break
    if not good or fo is None:
      continue
    for g, pos in queries:
      outs = it.outcomes(fo, [selfo, g, pos], copy_args=False)
      w = next((i for i, p_ in enumerate(want[g]) if p_ >= pos), sizes[g])
      ok = len(outs) == 1 and outs[0].kind == 'return' and absint._is_num(outs[0].value) and outs[0].value == w  # pylint: disable=protected-access
      ctx.check(R, ok, fo.node, fo, f'subgraphs with {sizes} operators after {updates}: positions of subgraph {g} are {want[g]}, query position {pos} -> {[o.short() for o in outs]}',
                f'must return {w}: the first original operator of subgraph {g} whose current position is >= {pos}, else the number of its operators')
  t = ctx.repo.func(f'{PERF}.transform_graph')
  ctx.instance(R)
  gt = cfgmod.build(t.node)
  resets = [n for n in gt.nodes if n.kind == 'stmt' and isinstance(n.ast, ast.Assign) and ast.unparse(n.ast.targets[0]) in ('self._original_op_id_map', 'self._added_op_id_map') and ast.unparse(n.ast.value) == '[]']
  create = [n for n in gt.nodes if any(common.call_name(cc).endswith('_create_op_id_map') for cc in n.calls())]
  apply_ = [n for n in gt.nodes if any(common.call_name(cc).endswith('_apply_transformations') for cc in n.calls())]
  ok = len(resets) == 2 and len(create) == 1 and all(gt.every_path_passes(gt.entry.id, create[0].id, {r.id}) for r in resets) and apply_ and all(gt.every_path_passes(gt.entry.id, a.id, {create[0].id}) for a in apply_)
  ctx.check(R, ok, t.node, t, 'maps reset, then created, then used', 'transform_graph must start from fresh op-id maps (a second call would otherwise append to the first call\'s maps)')


def r17_new_tensor_names(ctx, R='C01.R17'):
  """Tensor names are unique model-wide on input (checked by the generator).
  A new tensor stays unique only if its name is built from the name of ONE
  existing tensor plus a suffix no other creation site uses: a fixed name, or a
  name shared per subgraph, repeats as soon as the transformation is applied
  twice (two operators, two subgraphs)."""
  rs = ctx.rule(R, 'every new tensor is named <name of an existing tensor> + <suffix>, with a suffix no other creation site uses', floor=10)
  cg = callgraph.get(ctx)
  creators = ('add_new_activation_tensor', 'add_new_constant_tensor')
  suffixes = {}

  def name_expr_ok(f, e, depth=0):
    """-> (ok, suffix or None, text)"""
    if isinstance(e, ast.BinOp) and isinstance(e.op, ast.Add) and isinstance(e.right, ast.Constant) and isinstance(e.right.value, (bytes, str)) \
        and isinstance(e.left, ast.Attribute) and e.left.attr == 'name':
      return True, e.right.value, ast.unparse(e)
    if isinstance(e, ast.Name) and depth < 3:
      defs = [d for d in defuse.own_assignments(f.node).get(e.id, []) if d is not None]
      if len(defs) == 1:
        return name_expr_ok(f, defs[0], depth + 1)
      if e.id in f.pos_params:
        k = f.pos_params.index(e.id)
        res = []
        for caller_fq, sites in cg.sites.items():
          for s in sites:
            if any(c.fq == f.fq for c in s.callees):
              arg = s.node.args[k] if k < len(s.node.args) else next((kw.value for kw in s.node.keywords if kw.arg == e.id), None)
              if arg is not None:
                res.append(name_expr_ok(ctx.repo.func(caller_fq), arg, depth + 1))
        if res and all(r[0] for r in res):
          return True, None, ' | '.join(r[2] for r in res)
        if res:
          bad = next(r for r in res if not r[0])
          return False, None, bad[2]
    return False, None, ast.unparse(e)
  for m in ctx.repo.modules.values():
    if not m.short.startswith('transformations'):
      continue
    for f in m.functions.values():
      for c in common.calls_in(f.node):
        nm = common.call_name(c).split('.')[-1]
        if nm not in creators or f.name in creators:
          continue
        ctx.instance(R)
        arg = c.args[0] if c.args else next((k.value for k in c.keywords if k.arg == 'tensor_name'), None)
        if arg is None:
          ctx.check(R, False, c, f, c, 'new tensor without a name')
          continue
        ok, suffix, text = name_expr_ok(f, arg)
        ctx.check(R, ok, c, f, f'{nm}({text[:60]}, ...)',
                  f'the new tensor is named `{text[:80]}`, not <existing tensor>.name + <suffix>: the name repeats when the transformation is applied again (another operator / subgraph), and results, statistics and validation are keyed by name')
        if ok and suffix is not None:
          suffixes.setdefault(suffix, []).append((f, c))
  for sfx, sites in suffixes.items():
    if len(sites) > 1:
      f, c = sites[1]
      ctx.check(R, False, c, f, f'suffix {sfx!r}', f'suffix {sfx!r} is used by {len(sites)} creation sites ({", ".join(sorted({x[0].name for x in sites}))}): two tensors derived from one source get the same name')


def run(ctx):
  r1_name_uniqueness(ctx)
  r2_instruction_validity(ctx)
  r3_inserted_op(ctx)
  r4_helpers(ctx)
  r5_insert_after_producer(ctx)
  r6_sentinel(ctx)
  r7_no_truthiness_on_ids(ctx)
  r8_op_id_maps(ctx)
  r10_grouping_table(ctx)
  r17_new_tensor_names(ctx)
  shared.rule_performer_translation(ctx, 'C01.R12')
  shared.rule_performer_simulation(ctx, 'C01.R14')
  shared.rule_graph_rewrite_simulation(ctx, 'C01.R15')
  shared.rule_pipeline_simulation(ctx, 'C01.R16', 'whole pipeline on label models: the quantized graph is topologically valid, every tensor has one producer, quantized types and parameters go together, inserted ops convert between their neighbours\' types')
  shared.rule_blockwise_replacement(ctx, 'C01.R18')
  from sa.rules import c19  # pylint: disable=g-import-not-at-top
  ctx.rule('C01.R13', 'graph info: every tensor records its own id, its producer and one consumer entry per consuming operator', floor=1)
  gi = ctx.repo.func(f'{c19.TIG}._tensor_info_generator')
  ctx.instance('C01.R13')
  c19._graph_info_table(ctx, 'C01.R13', gi)
  # the buffer-sharing guard protects well-formedness too (a constant annotated
  # with two different parameter sets is rejected by the interpreter)
  from sa.rules import c15  # pylint: disable=g-import-not-at-top
  for old, new, title, fn in (('C15.R1', 'C01.R9', 'the buffer-sharing check runs on every path of plan generation (C15.R1)', c15.r1_must_call),
                              ('C15.R2', 'C01.R11', 'the buffer->tensors map counts every operand occurrence (C15.R2)', c15.r2_coverage)):
    before = len(ctx.violations)
    fn(ctx)
    if old in ctx.rules:
      rs = ctx.rules.pop(old)
      rs.title = title
      ctx.rules[new] = rs
    for v in ctx.violations[before:]:
      if v.rule == old:
        v.rule = new
  shared.rule_fixed_range_pipeline(ctx, 'C01.R19')

def r10_grouping_table(ctx, R='C01.R10'):
  """Horizontal grouping of consumers: a partition by (previous group, equal
  parameters, equal transformation at this depth) - adjacency must not matter."""
  import itertools as _it
  from sa.consteval import Obj
  rs = ctx.rule(R, 'consumers with equal parameters and transformation share ONE inserted op, whatever their order', floor=1)
  f = ctx.repo.func(f'{TIG}._group_consumer_transformations')
  ctx.instance(R)
  QT = {m.name: m for m in tables.enum(ctx, 'qtyping:QuantTransformation')}
  it = tables.interp(ctx)
  chains = [['ADD_QUANTIZE'], ['ADD_QUANTIZE', 'ADD_DEQUANTIZE'], ['NO_QUANTIZE'], ['ADD_DEQUANTIZE']]
  choices = [(c, p) for c in chains for p in ('P', 'R')]
  rs.exhaustive = True
  rows = 0
  for n in (1, 2, 3):
    for combo in _it.product(choices, repeat=n):
      consumers = [Obj('qtyping:OpToTensorParams', {'subgraph_op_id': 10 + i, 'transformations': [QT[t] for t in ch], 'parameters': None if ch == ['NO_QUANTIZE'] else p})
                   for i, (ch, p) in enumerate(combo)]
      param = Obj('qtyping:TensorTransformationParams', {'tensor_name': 't', 'producer': None, 'consumers': consumers})
      outs = it.outcomes(f, [Obj(f.cls.fq if f.cls is not None else 'x:self', {}), param])
      rows += 1
      if len(outs) != 1 or outs[0].kind != 'return':
        ctx.check(R, False, f.node, f, f'{combo}', f'grouping is not decided / raises: {[o.short() for o in outs]}')
        continue
      got = outs[0].value
      # reference partition
      want = [[frozenset(range(n))]]
      depth = 0
      longest = max(len(c.fields['transformations']) for c in consumers)
      for d in range(longest):
        nxt = []
        for grp in want[d]:
          buckets = {}
          for i in sorted(grp):
            c = consumers[i]
            if len(c.fields['transformations']) > d:
              key = (c.fields['transformations'][d].name, c.fields['parameters'])
              buckets.setdefault(key, set()).add(i)
          nxt += [frozenset(b) for b in buckets.values()]
        want.append(nxt)
      try:
        got_n = [set(frozenset(g) for g in level) for level in got]
      except TypeError:
        got_n = None
      want_n = [set(level) for level in want]
      ok = got_n == want_n
      if not ok and rows_bad(ctx, R) < 3:
        ctx.check(R, False, f.node, f, f'consumers {[(c, p) for c, p in combo]}',
                  f'groups {[[sorted(g) for g in lvl] for lvl in got] if got_n is not None else got} but equal (parameters, transformation) consumers must share a group: '
                  f'{[[sorted(g) for g in lvl] for lvl in want]}; split groups insert the same op twice (duplicate "<name>_quantized" tensors)')
      elif ok:
        ctx.check(R, True, f.node, f, 'row', '')
      else:
        ctx.rule(R).obligations += 1
  ctx.extra['grouping_table_rows'] = rows
  ctx.sample(R, {'rows': rows})


def rows_bad(ctx, R):
  return sum(1 for v in ctx.violations if v.rule == R)
