"""C11 - recipe resolution follows the last-applicable-rule-wins model."""
from __future__ import annotations

import ast
import copy
import itertools

from sa import absint
from sa import callgraph
from sa import cfg as cfgmod
from sa import effects
from sa import index
from sa import tables
from sa.consteval import EnumVal, Obj
from sa.rules import common

EXPLANATION = (
    'RecipeManager.add_quantization_config and get_quantization_configs are '
    'treated as transition / query functions over a small abstract store '
    '(0-2 scopes x 0-2 rules) and enumerated by path enumeration of their '
    'source for every (regex, operator selector, algorithm, supported / '
    'unsupported config) input; the results are compared with the documented '
    'model (in-place replace, * reset, append, no change on rejection; last '
    'applicable rule wins, unsupported skipped). Purity of resolution is '
    'decided by the alias/effect analysis; regex applicability by the call '
    'shape of re.search.'
)
LEVEL_TEXT = (
    'Exhaustive one-step transition and query tables of the two RecipeManager '
    'methods over a finite abstract store, decided from source; together they '
    'are the induction step of the last-applicable-rule-wins model for '
    'histories of any length (the store shapes cover: new scope, existing '
    'scope with/without the operator, * rule present, two scopes in either '
    'insertion order). Resolution is shown effect-free by the interprocedural '
    'effect analysis.'
    ' Loading a rule list equals adding its entries in order (all lists of up to three entries).'
)
LEVEL_NOTE = (
    'Trusted: the sa path enumerator; the support check is taken from the '
    'repository\'s own check function tables (C13). Regex semantics are those '
    'of re.search (only the call shape is checked). Not decided: behaviour on '
    'stores larger than the abstract ones, which the code treats uniformly '
    '(single loops over the containers).'
)
TECHNIQUE = 'transition/decision-table extraction by path enumeration (incl. load == sequential adds) + effect analysis (static)'

RM = 'recipe_manager:RecipeManager'
CHECK_FQ = 'algorithm_manager_api:AlgorithmManagerApi.check_op_quantization_config'


def _mk_interp(ctx):
  def check_hook(args, kwargs):
    alg, op, cfg = args[-3:]
    ok, why = tables.accepts(ctx, alg, op, cfg)
    if not ok:
      raise absint._Raise('ValueError', 'unsupported')  # pylint: disable=protected-access
    return None
  return absint.Interp(ctx.repo, ctx.ev, hooks={CHECK_FQ: check_hook})


def _domain(ctx):
  OP = {e.name: e for e in tables.op_names(ctx)}
  ALG = {e.name: e for e in tables.algorithm_names(ctx)}
  CP = {e.name: e for e in tables.enum(ctx, 'qtyping:ComputePrecision')}
  w8 = tables.tensor_config(ctx, num_bits=8)
  a8 = tables.tensor_config(ctx, num_bits=8, symmetric=False)
  good = tables.construct(ctx, common.OPCFG, weight_tensor_config=w8, compute_precision=CP['INTEGER'])  # DRQ
  srq = tables.construct(ctx, common.OPCFG, weight_tensor_config=w8, activation_tensor_config=a8, compute_precision=CP['INTEGER'])
  w16 = tables.tensor_config(ctx, num_bits=16)
  bad = tables.construct(ctx, common.OPCFG, weight_tensor_config=w16, compute_precision=CP['INTEGER'])
  MM = ALG['MIN_MAX_UNIFORM_QUANT']
  for o in ('FULLY_CONNECTED', 'CONV_2D'):
    okc, _ = tables.accepts(ctx, MM, OP[o], good)
    if not okc:
      raise index.AnalysisError(f'C11 domain: the dynamic-range 8-bit config is expected to be supported for {o}')
    okc, _ = tables.accepts(ctx, MM, OP[o], bad)
    if okc:
      raise index.AnalysisError('C11 domain: the 16-bit-weight dynamic-range config is expected to be unsupported')
  # SOFTMAX does not support the DRQ config (used for "*" fall-through)
  okc, _ = tables.accepts(ctx, MM, OP['SOFTMAX'], good)
  if okc:
    raise index.AnalysisError('C11 domain: DRQ is expected to be unsupported for SOFTMAX')
  return OP, ALG, good, srq, bad


def _recipe(regex, op, alg, cfg):
  return Obj('recipe_manager:OpQuantizationRecipe', {'regex': regex, 'operation': op, 'algorithm_key': alg, 'op_config': cfg})


def _store_key(store):
  return [(k, [(r.fields['operation'], r.fields['algorithm_key'], r.fields['op_config']) for r in v]) for k, v in store.items()]


def r5_add_table(ctx):
  R = 'C11.R5'
  rs = ctx.rule(R, 'add: in-place replace / * reset / append / new scope; a rejected add changes nothing', floor=1)
  f = ctx.repo.func(f'{RM}.add_quantization_config')
  ctx.instance(R)
  OP, ALG, good, srq, bad = _domain(ctx)
  MM, NOQ = ALG['MIN_MAX_UNIFORM_QUANT'], ALG['NO_QUANTIZE']
  FC, CONV, ALL = OP['FULLY_CONNECTED'], OP['CONV_2D'], OP['ALL_SUPPORTED']
  it = _mk_interp(ctx)
  A = _recipe('a', FC, MM, good)
  B = _recipe('a', CONV, MM, good)
  S = _recipe('a', ALL, MM, srq)
  C = _recipe('b', FC, MM, srq)
  stores = {
      'empty': {},
      'a:[FC]': {'a': [A]},
      'a:[FC,CONV]': {'a': [A, B]},
      'a:[CONV,FC]': {'a': [B, A]},
      'a:[*]': {'a': [S]},
      'a:[FC],b:[FC]': {'a': [A], 'b': [C]},
      'b:[FC],a:[FC]': {'b': [C], 'a': [A]},
  }
  rows = 0
  rs.exhaustive = True
  for sname, store in stores.items():
    for regex, op, (alg, cfg, valid) in itertools.product(
        ['a', 'b', 'c'], [FC, CONV, ALL],
        [(MM, srq, True), (MM, bad, False), (NOQ, None, True), (MM, None, False)]):
      st0 = copy.deepcopy(store)
      selfobj = Obj(RM, {'_scope_configs': st0})
      args = [selfobj, regex, op, cfg, alg]
      outs = it.outcomes(f, args, copy_args=False)
      rows += 1
      # outcomes() may re-run; recompute on a fresh store for the final state
      st = copy.deepcopy(store)
      selfobj = Obj(RM, {'_scope_configs': st})
      try:
        it._decisions, it._cursor = [], 0  # pylint: disable=protected-access
        it.call_function(f, [selfobj, regex, op, cfg, alg], {}, 0)
        raised = None
      except absint._Raise as r:  # pylint: disable=protected-access
        raised = r.exc
      after = selfobj.fields['_scope_configs']
      # ---- reference model
      eff_cfg = cfg
      if cfg is None:
        eff_cfg = tables.construct(ctx, common.OPCFG)
      new = _recipe(regex, op, alg, eff_cfg)
      want = copy.deepcopy(store)
      want_raise = None
      is_all = op.name == 'ALL_SUPPORTED'
      rejected = (not is_all) and alg.name != 'NO_QUANTIZE' and not valid
      if cfg is None and alg.name != 'NO_QUANTIZE' and not is_all:
        rejected = True  # the default (float) config is not supported for a specific op
      if rejected:
        want_raise = 'ValueError'
      elif is_all:
        want[regex] = [new]
      elif regex not in want:
        want[regex] = [new]
      else:
        lst = want[regex]
        hit = [i for i, r in enumerate(lst) if r.fields['operation'] == op]
        if hit:
          lst[hit[0]] = new
        else:
          lst.append(new)
      label = f'store={sname} add(regex={regex!r}, op={op.name}, alg={alg.name}, config={"supported" if valid and cfg is not None else "unsupported" if cfg is not None else "default"})'
      ok = raised == want_raise and _store_key(after) == _store_key(want)
      msg = ''
      if not ok:
        if raised != want_raise:
          msg = f'raises {raised}, model says {want_raise}'
        else:
          msg = (f'store becomes {[(k, [r.fields["operation"].name for r in v]) for k, v in after.items()]}, the model requires '
                 f'{[(k, [r.fields["operation"].name for r in v]) for k, v in want.items()]}'
                 + (' (a rejected add must leave the rule list untouched, including the order of scopes)' if want_raise else ''))
      ctx.check(R, ok, f.node, f, label, msg)
      if rows == 7:
        ctx.sample(R, {'row': label, 'raises': raised, 'store_after': [(k, [r.fields['operation'].name for r in v]) for k, v in after.items()]})
  ctx.extra['add_table_rows'] = rows


def r23_resolution_table(ctx, R='C11.R3', title='resolution: last applicable rule wins over scopes in insertion order; unsupported rules are skipped', single_only=False):
  rs = ctx.rule(R, title, floor=1)
  f = ctx.repo.func(f'{RM}.get_quantization_configs')
  ctx.instance(R)
  OP, ALG, good, srq, bad = _domain(ctx)
  MM, NOQ = ALG['MIN_MAX_UNIFORM_QUANT'], ALG['NO_QUANTIZE']
  FC, CONV, ALL, SM = OP['FULLY_CONNECTED'], OP['CONV_2D'], OP['ALL_SUPPORTED'], OP['SOFTMAX']
  it = _mk_interp(ctx)
  default_cfg = tables.construct(ctx, common.OPCFG)
  rules = {
      'fcD': lambda rx: _recipe(rx, FC, MM, good),
      'fcS': lambda rx: _recipe(rx, FC, MM, srq),
      'convD': lambda rx: _recipe(rx, CONV, MM, good),
      'allD': lambda rx: _recipe(rx, ALL, MM, good),     # unsupported for SOFTMAX
      'allS': lambda rx: _recipe(rx, ALL, MM, srq),
      'fcNo': lambda rx: _recipe(rx, FC, NOQ, default_cfg),
      'allBad': lambda rx: _recipe(rx, ALL, MM, bad),
      # a specific-op rule whose config is NOT supported (it can sit in the store
      # after the policy was replaced): resolution must still skip it
      'fcBad': lambda rx: _recipe(rx, FC, MM, bad),
  }
  scopes = {'x/y;': None, 'y;': None, 'zz;': None}
  regexes = ['x', 'y', '^y', 'nomatch']
  import re as _re  # reference model uses re.search as the documentation says

  rows = 0
  rs.exhaustive = True
  names = list(rules)
  store_shapes = []
  for r1 in regexes:
    for n1 in names:
      store_shapes.append([(r1, [n1])])
      for n2 in names:
        if n2 != n1 and not single_only:
          store_shapes.append([(r1, [n1, n2])])
  for r1, r2 in itertools.permutations(['x', 'y'], 2):
    for n1, n2 in itertools.product(names, names):
      if not single_only:
        store_shapes.append([(r1, [n1]), (r2, [n2])])
  for shape in store_shapes:
    store = {}
    flat = []
    for rx, ns in shape:
      store[rx] = [rules[n](rx) for n in ns]
      flat += [(rx, rules[n](rx)) for n in ns]
    selfobj = Obj(RM, {'_scope_configs': store})
    for target, scope in itertools.product([FC, CONV, SM], scopes):
      rows += 1
      outs = it.outcomes(f, [selfobj, target, scope], copy_args=False)
      if len(outs) != 1 or outs[0].kind != 'return':
        ctx.check(R, False, f.node, f, f'{shape} query({target.name},{scope!r})', f'not decided / raises: {[o.short() for o in outs]}')
        continue
      got = outs[0].value
      want = (NOQ, default_cfg)
      for rx, rec in flat:
        if not _re.search(rx, scope):
          continue
        if rec.fields['operation'].name != 'ALL_SUPPORTED' and rec.fields['operation'] != target:
          continue
        if rec.fields['algorithm_key'].name != 'NO_QUANTIZE':
          okc, _ = tables.accepts(ctx, rec.fields['algorithm_key'], target, rec.fields['op_config'])
          if not okc:
            continue
        want = (rec.fields['algorithm_key'], rec.fields['op_config'])
      ok = isinstance(got, tuple) and len(got) == 2 and got[0] == want[0] and got[1] == want[1]
      ctx.check(R, ok, f.node, f, f'store={shape} query(op={target.name}, scope={scope!r})',
                f'resolves to ({got[0] if isinstance(got, tuple) else got}, ...), the last applicable rule gives ({want[0]}, ...)')
  ctx.extra['resolution_table_rows'] = rows
  ctx.sample(R, {'stores': len(store_shapes), 'queries': rows})
  # the applicability test is re.search(rule regex, scope)
  srch = [c for c in common.calls_in(f.node) if common.call_name(c).startswith('re.')]
  ok = len(srch) == 1 and common.call_name(srch[0]) == 're.search' and len(srch[0].args) == 2 and ast.unparse(srch[0].args[1]) == f.pos_params[2]
  ctx.check(R, ok, f.node, f, srch[0] if srch else 're.search', 'scope applicability must be re.search(<rule regex>, <scope name>) (regex FOUND IN the scope)')


def r1_purity(ctx):
  R = 'C11.R1'
  ctx.rule(R, 'resolution is effect-free (no mutation of the rule list, arguments or globals)', floor=1)
  eff = effects.get(ctx)
  f = ctx.repo.func(f'{RM}.get_quantization_configs')
  ctx.instance(R)
  s = eff.summary(f.fq)
  for (root, path), w in s.mut.items():
    ctx.check(R, False, w.where, f, f'{effects.fmt_path(root, path)} mutated', f'get_quantization_configs may mutate {effects.fmt_path(root, path)}: {w.text}', path=w.steps())
  for k, w in list(s.global_writes.items()) + [(a, w) for a, w in s.self_writes.items()]:
    ctx.check(R, False, w.where, f, f'write {k}', f'get_quantization_configs writes {k}: {w.text}')
  if not s.mut and not s.global_writes and not s.self_writes:
    ctx.check(R, True, f.node, f, 'pure', '')
  for m in ('get_quantization_recipe', 'need_calibration'):
    g = ctx.repo.func(f'{RM}.{m}')
    s = eff.summary(g.fq)
    ctx.check(R, not s.mut and not s.self_writes, g.node, g, f'{m} effects', f'{m}() mutates {sorted(effects.fmt_path(*k) for k in s.mut)}')


def r4_exception_discipline(ctx, resolve_only=False):
  R = 'C11.R4'
  ctx.rule(R, 'unsupported rules: skipped silently at resolution, rejected before any state change at update', floor=2)
  cg = callgraph.get(ctx)
  f = ctx.repo.func(f'{RM}.get_quantization_configs')
  ctx.instance(R)
  g = cfgmod.build(f.node)
  chk = [n for n in g.nodes if any(common.call_name(c).endswith('check_op_quantization_config') for c in n.calls())]
  if not ctx.check(R, len(chk) == 1, f.node, f, 'support check', 'resolution must call the support check exactly once per rule'):
    return
  tries = [t for t in ast.walk(f.node) if isinstance(t, ast.Try) and any(n is chk[0].ast for s in t.body for n in ast.walk(s))]
  ok = len(tries) == 1
  if ok:
    hs = tries[0].handlers
    names = [ast.unparse(h.type) if h.type is not None else 'BaseException' for h in hs]
    ok = any(n.split('.')[-1] in ('ValueError', 'Exception') for n in names)
    for h in hs:
      reraises = any(isinstance(x, ast.Raise) for x in ast.walk(h))
      assigns = any(isinstance(x, ast.Assign) and any('result' in ast.unparse(t) for t in x.targets) for x in ast.walk(h))
      ctx.check(R, not reraises and not assigns, h, f, h, 'the handler of the support check must neither re-raise nor select the rule')
  ctx.check(R, ok, chk[0].ast, f, chk[0].ast, 'the resolve-time support check must sit in a try that catches ValueError (a "*" rule must fall through silently)')
  # exceptions the check tree can raise are ValueError only
  tree = cg.reachable([CHECK_FQ] + [r.fq for r in tables.check_funcs(ctx).values()])
  kinds = set()
  for fq in tree:
    fn = ctx.repo.func(fq)
    for n in common.walk_no_nested(fn.node):
      if isinstance(n, ast.Raise) and n.exc is not None:
        e = n.exc.func if isinstance(n.exc, ast.Call) else n.exc
        kinds.add(ast.unparse(e).split('.')[-1])
  ctx.check(R, kinds <= {'ValueError'}, f.node, f, f'check tree raises {sorted(kinds)}',
            f'the support check can raise {sorted(kinds - {"ValueError"})}, which resolution does not catch')
  # arguments: (rule algorithm, TARGET op, rule config)
  call = [c for c in chk[0].calls() if common.call_name(c).endswith('check_op_quantization_config')][0]
  args = [ast.unparse(a) for a in call.args]
  ctx.check(R, len(args) == 3 and args[1] == f.pos_params[1] and 'algorithm_key' in args[0] and 'op_config' in args[2], call, f, call,
            'the support check must be asked about (rule algorithm, the TARGET operator, rule config)')
  if resolve_only:
    return
  # update time: the check dominates every state mutation
  a = ctx.repo.func(f'{RM}.add_quantization_config')
  ctx.instance(R)
  ga = cfgmod.build(a.node)
  chk_a = [n for n in ga.nodes if any(common.call_name(c).endswith('check_op_quantization_config') for c in n.calls())]
  ctx.check(R, len(chk_a) == 1, a.node, a, 'support check', 'add_quantization_config must call the support check')
  if chk_a:
    in_try = [t for t in ast.walk(a.node) if isinstance(t, ast.Try) and any(n is chk_a[0].ast for s in t.body for n in ast.walk(s))]
    ctx.check(R, not in_try, chk_a[0].ast, a, chk_a[0].ast, 'a specific-op rule with an unsupported config must be refused with ValueError, not swallowed')
    muts = []
    for n in ga.nodes:
      for x in n.walk():
        if isinstance(x, (ast.Subscript, ast.Attribute)) and isinstance(getattr(x, 'ctx', None), ast.Store) and '_scope_configs' in ast.unparse(x):
          muts.append(n)
        if isinstance(x, ast.Call) and isinstance(x.func, ast.Attribute) and x.func.attr in effects.MUTATORS and '_scope_configs' in ast.unparse(x.func.value):
          muts.append(n)
    for mnode in muts:
      # a mutation that can be followed by the raising check leaves a half-applied add behind
      after = ga.reachable([d for d, _ in ga.succ[mnode.id]])
      ctx.check(R, chk_a[0].id not in after, mnode.ast, a, mnode.ast,
                'the rule list is modified before the support check that may reject the rule (a refused add leaves a trace, e.g. reserves the scope position)')


def r6_load_equals_adds(ctx, R='C11.R6'):
  """load_quantization_recipe(list) must leave the manager in the state that
  adding the entries one by one, in list order, produces - also for hand-written
  lists that repeat a (regex, operator) pair or put a '*' entry between two
  entries of one operator. Decided for all lists of up to 3 entries from a small
  alphabet by comparing stores and resolution tables."""
  import itertools as _it  # pylint: disable=g-import-not-at-top
  rs = ctx.rule(R, 'loading a rule list == adding its entries one by one in order (lists of up to 3 entries, repeated pairs and * in between included)', floor=1)
  add = ctx.repo.func(f'{RM}.add_quantization_config')
  load = ctx.repo.func(f'{RM}.load_quantization_recipe')
  res = ctx.repo.func(f'{RM}.get_quantization_configs')
  ctx.instance(R)
  OP, ALG, good, srq, bad = _domain(ctx)
  MM, NOQ = ALG['MIN_MAX_UNIFORM_QUANT'], ALG['NO_QUANTIZE']
  FC, CONV, ALL = OP['FULLY_CONNECTED'], OP['CONV_2D'], OP['ALL_SUPPORTED']
  it = _mk_interp(ctx)
  alphabet = [('.*', FC, good, MM), ('.*', ALL, srq, MM), ('.*', FC, srq, MM), ('x', FC, good, MM), ('.*', ALL, good, MM), ('x', ALL, srq, MM), ('.*', CONV, None, NOQ)]
  queries = list(_it.product([FC, CONV], ['x/y;', 'zz;']))

  def fresh():
    o = it.construct(RM, [], {}, None, 0)
    if not isinstance(o, Obj):
      raise index.AnalysisError(f'{RM}.__init__ is not interpretable')
    return o

  def table(m):
    out = []
    for t, s in queries:
      q = it.outcomes(res, [m, t, s], copy_args=False)
      if len(q) != 1 or q[0].kind != 'return' or not isinstance(q[0].value, tuple):
        return None
      alg, cfg = q[0].value
      out.append((str(getattr(alg, 'value', alg)), cfg.frozen() if isinstance(cfg, Obj) else repr(cfg)))
    return out
  rs.exhaustive = True
  n = 0
  for k in (1, 2, 3):
    for seq in _it.product(range(len(alphabet)), repeat=k):
      a = fresh()
      ok = True
      entries = []
      for i in seq:
        rx, op, cfg, alg = alphabet[i]
        o = it.outcomes(add, [a, rx, op, cfg, alg], copy_args=False)
        if len(o) != 1 or o[0].kind != 'return':
          ok = False
          break
        cfg_dict = common.to_dict(ctx, cfg if cfg is not None else tables.construct(ctx, common.OPCFG))
        entries.append({'regex': rx, 'operation': op.value, 'algorithm_key': alg.value, 'op_config': common.json_roundtrip(cfg_dict)})
      if not ok:
        continue
      b = fresh()
      l = it.outcomes(load, [b, entries], copy_args=False)
      label = 'list ' + ' ; '.join(f"({alphabet[i][0]!r}, {alphabet[i][1].name}, {'static' if alphabet[i][2] is srq else 'dynamic' if alphabet[i][2] is good else 'none'})" for i in seq)
      if len(l) != 1 or l[0].kind != 'return':
        ctx.check(R, False, load.node, load, label, f'loading raises / is not decided: {[x.short()[:100] for x in l]}')
        continue
      n += 1
      ta, tb = table(a), table(b)
      if ta is None or tb is None:
        ctx.check(R, False, res.node, res, label, 'resolution not decided')
        continue
      diff = [(queries[i][0].name, queries[i][1]) for i in range(len(queries)) if ta[i] != tb[i]]
      ctx.check(R, not diff, load.node, load, label,
                f'after loading this list {diff[0][0] if diff else ""} under scope {diff[0][1] if diff else ""!r} does not resolve as after adding the same entries one by one: '
                'loading is not "the documented add, in list order"')
  ctx.sample(R, {'lists': n})


def run(ctx):
  ctx.assume('regular-expression semantics are those of re.search')
  r1_purity(ctx)
  r23_resolution_table(ctx)
  r4_exception_discipline(ctx)
  r5_add_table(ctx)
  r6_load_equals_adds(ctx)


