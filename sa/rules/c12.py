"""C12 - a saved recipe reloads to the same rules.

Decided statically: writer/reader agreement of the recipe serialisation
(to_dict/from_dict field tables, recipe dict keys), JSON-safety of the enums,
validity of every shipped recipe file against the declared schema, re-export
fixpoint of the default recipes, recipe.py literal == shipped file.
Not decided: byte-identical re-quantization with the reloaded recipe.
"""
from __future__ import annotations

import ast
import itertools
import json

from sa import index
from sa import tables
from sa.consteval import EnumVal, Obj
from sa.rules import common

EXPLANATION = (
    'Writer/reader agreement of recipe serialisation decided from source: the '
    'to_dict/from_dict pair of both config dataclasses is enumerated over the '
    'full presence/enum lattice of their fields by path enumeration of the two '
    'functions (no repository code is executed), recipe dict keys written and '
    'read are compared, every shipped JSON recipe is validated against the '
    'dataclass/enum tables extracted from qtyping.py, and recipe.py literals '
    'are compared with the shipped files.'
)


def op_config_lattice(ctx):
  """All OpQuantizationConfig values over presence x enum x bool of its fields."""
  CP = tables.enum(ctx, 'qtyping:ComputePrecision')
  # every field of TensorQuantizationConfig varies, including block_size with
  # granularities that ignore it (a reload must not "normalise" such values)
  acts = [None] + common.tensor_cfgs(ctx, [8, 16], [True, False], ['TENSORWISE'], ['INT'], block_sizes=(0, 32))
  weights = [None] + common.tensor_cfgs(
      ctx, [4, 8, 16], [True, False], ['TENSORWISE', 'CHANNELWISE', 'BLOCKWISE'],
      ['INT', 'FLOAT'], block_sizes=(0, 32))
  out = []
  rejected = 0
  for a, w, cp, ed, sk in itertools.product(acts, weights, CP, [False, True],
                                            [False, True]):
    o = tables.construct(ctx, common.OPCFG, activation_tensor_config=a,
                         weight_tensor_config=w, compute_precision=cp,
                         explicit_dequantize=ed, skip_checks=sk)
    if isinstance(o, Obj):
      out.append(o)
    else:
      rejected += 1
  return out, rejected


def r1_field_agreement(ctx):
  R = 'C12.R1'
  ctx.rule(R, 'to_dict/from_dict agree on every field incl. omitted-None fields', floor=2)
  # structural half: unconditional subscripts of Optional fields in from_dict
  for fq in (common.OPCFG, common.TCFG):
    ci = ctx.repo.cls(fq)
    fd = ci.methods.get('from_dict')
    td = ci.methods.get('to_dict')
    if fd is None or td is None:
      raise index.AnalysisError(f'{fq} lost to_dict/from_dict')
    ctx.instance(R)
    optional = {f.name for f in ci.fields
                if f.default is not None and isinstance(f.default, ast.Constant)
                and f.default.value is None}
    guarded = set()
    for n in ast.walk(fd.node):
      if isinstance(n, ast.If):
        for c in ast.walk(n.test):
          if isinstance(c, ast.Compare) and isinstance(c.left, ast.Constant) and any(
              isinstance(o, ast.In) for o in c.ops):
            for sub in ast.walk(ast.Module(body=n.body, type_ignores=[])):
              if isinstance(sub, ast.Subscript) and isinstance(sub.slice, ast.Constant) and sub.slice.value == c.left.value:
                guarded.add(id(sub))
    for n in ast.walk(fd.node):
      if isinstance(n, ast.Subscript) and isinstance(n.slice, ast.Constant) and isinstance(n.slice.value, str) and isinstance(n.ctx, ast.Load):
        k = n.slice.value
        if k in optional:
          ctx.check(R, id(n) in guarded, n, fd, n,
                    f'from_dict reads key {k!r} unconditionally but to_dict omits '
                    f'it when the field is None (KeyError on reload)')
    # every dataclass-typed field must be converted by that class's from_dict
    src = ast.unparse(fd.node)
    for f in ci.fields:
      aci = tables.annotation_class(ctx, ci.module, f.annotation) if f.annotation is not None else None
      if aci is not None and aci.is_dataclass:
        ctx.check(R, f"'{f.name}'" in src and f'{aci.name}.from_dict' in src, fd.node, fd,
                  f'field {f.name}', f'from_dict does not convert {f.name} with {aci.name}.from_dict')
  # table half: round trip over the whole lattice
  lattice, rejected = op_config_lattice(ctx)
  ctx.rule(R).exhaustive = True
  bad = 0
  for cfg in lattice:
    d = common.to_dict(ctx, cfg)
    dj = common.json_roundtrip(d)
    try:
      json.dumps(dj)
      serialisable = True
    except TypeError:
      serialisable = False
    ok = serialisable
    msg = 'to_dict result is not JSON-serialisable'
    if ok:
      outs = tables.call(ctx, f'{common.OPCFG}.from_dict', [dj])
      raises = [o for o in outs if o.kind == 'raise']
      if raises:
        ok = False
        msg = f'from_dict(to_dict(cfg)) raises {raises[0].exc}({raises[0].msg})'
      else:
        back = outs[0].value
        if back != cfg:
          ok = False
          msg = f'from_dict(to_dict(cfg)) = {back!r} differs from cfg'
    if not ok:
      bad += 1
    fd = ctx.repo.cls(common.OPCFG).methods['from_dict']
    # group failures by message kind to avoid thousands of lines
    if ok or bad <= 3:
      ctx.check(R, ok, fd.node, fd, f'round trip of {_cfg_key(cfg)}', msg + f' for {cfg!r}')
    else:
      ctx.rule(R).obligations += 1
  ctx.sample(R, {'lattice_rows': len(lattice), 'rejected_by_post_init': rejected,
                 'example': repr(lattice[1]) if len(lattice) > 1 else ''})
  # tensor config alone
  for t in common.tensor_cfgs(ctx, [4, 8, 16], [True, False],
                              ['TENSORWISE', 'CHANNELWISE', 'BLOCKWISE'], ['INT', 'FLOAT'], block_sizes=(0, 1, 32)):
    d = common.json_roundtrip(common.to_dict(ctx, t))
    outs = tables.call(ctx, f'{common.TCFG}.from_dict', [d])
    fd = ctx.repo.cls(common.TCFG).methods['from_dict']
    ok = all(o.kind == 'return' and o.value == t for o in outs)
    ctx.check(R, ok, fd.node, fd, f'tensor round trip {t!r}',
              f'TensorQuantizationConfig round trip fails for {t!r}: {[o.short() for o in outs]}')


def _cfg_key(cfg: Obj) -> str:
  f = cfg.fields
  return (f'act={"set" if f.get("activation_tensor_config") is not None else None},'
          f'weight={"set" if f.get("weight_tensor_config") is not None else None}')


def r2_key_agreement(ctx):
  R = 'C12.R2'
  ctx.rule(R, 'recipe dict keys written == keys read; need_calibration reads emitted keys', floor=3)
  rm = ctx.repo.cls('recipe_manager:RecipeManager')
  w = rm.methods.get('get_quantization_recipe')
  r = rm.methods.get('load_quantization_recipe')
  nc = rm.methods.get('need_calibration')
  if not (w and r and nc):
    raise index.AnalysisError('RecipeManager writer/reader methods not found')
  written = set()
  for n in ast.walk(w.node):
    if isinstance(n, ast.Subscript) and isinstance(n.ctx, ast.Store) and isinstance(n.slice, ast.Constant):
      written.add(n.slice.value)
    if isinstance(n, ast.Dict):
      for k in n.keys:
        if isinstance(k, ast.Constant) and isinstance(k.value, str):
          written.add(k.value)
    if isinstance(n, ast.Call) and common.call_name(n) == 'dict':
      for kw in n.keywords:
        if kw.arg:
          written.add(kw.arg)
  read = set()
  loopvars = set()
  for n in ast.walk(r.node):
    if isinstance(n, ast.For) and isinstance(n.target, ast.Name):
      loopvars.add(n.target.id)
  for k, n in common.const_subscript_keys(r.node, lambda b: isinstance(b, ast.Name) and b.id in loopvars):
    read.add(k)
  ctx.instance(R, 2)
  ctx.check(R, written == read, w.node, w, f'written={sorted(written)} read={sorted(read)}',
            f'get_quantization_recipe writes keys {sorted(written)} but '
            f'load_quantization_recipe reads {sorted(read)}')
  ctx.check(R, set(common.RECIPE_KEYS) == written, w.node, w, f'written={sorted(written)}',
            f'recipe schema keys are {common.RECIPE_KEYS}, writer emits {sorted(written)}')
  # the op_config value written is to_dict(), the one read goes through from_dict
  wsrc, rsrc = ast.unparse(w.node), ast.unparse(r.node)
  ctx.check(R, '.op_config.to_dict()' in wsrc, w.node, w, "config['op_config'] = ...",
            'writer no longer serialises op_config with to_dict()')
  ctx.check(R, 'from_dict(config[' in rsrc.replace(' ', '') or '.from_dict(' in rsrc, r.node, r,
            "from_dict(config['op_config'])", 'reader no longer rebuilds op_config with from_dict()')
  # need_calibration
  ctx.instance(R)
  fields = {f.name for f in tables.dataclass_fields(ctx, common.OPCFG)}
  always = {f.name for f in tables.dataclass_fields(ctx, common.OPCFG)
            if not (isinstance(f.default, ast.Constant) and f.default.value is None)}
  for k, n in common.const_subscript_keys(nc.node, lambda b: isinstance(b, ast.Subscript) and isinstance(b.slice, ast.Constant) and b.slice.value == 'op_config'):
    ctx.check(R, k in fields, n, nc, n, f'need_calibration reads key {k!r} which is not an OpQuantizationConfig field')
    ctx.check(R, k in always, n, nc, n, f'need_calibration subscripts key {k!r} which to_dict omits when None')
  for n in ast.walk(nc.node):
    if isinstance(n, ast.Compare) and any(isinstance(o, (ast.In, ast.NotIn)) for o in n.ops) and isinstance(n.left, ast.Constant):
      ctx.check(R, n.left.value in fields, n, nc, n, f'need_calibration tests key {n.left.value!r} which is not a field')


def r3_str_enums(ctx):
  R = 'C12.R3'
  ctx.rule(R, 'enums that reach JSON are str-valued', floor=5)
  todo = ['qtyping:TFLOperationName', 'algorithm_manager:AlgorithmName']
  for fq in (common.OPCFG, common.TCFG):
    ci = ctx.repo.cls(fq)
    for f in ci.fields:
      aci = tables.annotation_class(ctx, ci.module, f.annotation) if f.annotation is not None else None
      if aci is not None and aci.is_enum and aci.fq not in todo:
        todo.append(aci.fq)
  for fq in todo:
    ci = ctx.repo.cls(fq)
    ctx.instance(R)
    ctx.check(R, any(b.split('.')[-1] == 'str' for b in ci.bases), ci.node, ci.module,
              f'class {ci.name}({", ".join(ci.bases)})',
              f'enum {ci.name} is written into recipes but is not a str subclass (json.dumps fails / reload compares unequal)')
    vals = [m.value for m in ctx.ev.enum_members(ci)]
    ctx.check(R, all(isinstance(v, str) for v in vals) and len(set(vals)) == len(vals), ci.node, ci.module,
              f'{ci.name} values', f'enum {ci.name} values must be distinct strings: {vals}')


def r4_shipped_files(ctx):
  R = 'C12.R4'
  ctx.rule(R, 'every shipped recipes/*.json loads against the declared schema', floor=6)
  for rel, err in ctx.repo.json_errors.items():
    if rel.startswith(common.RECIPE_DIR):
      ctx.violate(R, rel, rel, 'json', f'file does not parse: {err}')
  for rel, data in sorted(ctx.repo.json_files.items()):
    if not rel.startswith(common.RECIPE_DIR):
      continue
    ctx.instance(R)
    if not ctx.check(R, isinstance(data, list) and data, rel, rel, 'top level', 'recipe must be a non-empty list of rules'):
      continue
    for i, entry in enumerate(data):
      common.validate_recipe_entry(ctx, R, rel, i, entry)
  ctx.sample(R, sorted(r for r in ctx.repo.json_files if r.startswith(common.RECIPE_DIR)))


def r5_fixpoint(ctx):
  R = 'C12.R5'
  ctx.rule(R, 'default recipes re-export to themselves', floor=5)
  for name in common.DEFAULT_RECIPES:
    rel = common.RECIPE_DIR + name
    if rel not in ctx.repo.json_files:
      raise index.AnalysisError(f'shipped default recipe {rel} not found')
    ctx.instance(R)
    data = ctx.repo.json_files[rel]
    if not isinstance(data, list):
      continue
    for i, entry in enumerate(data):
      if not isinstance(entry, dict) or 'op_config' not in entry:
        continue
      outs = tables.call(ctx, f'{common.OPCFG}.from_dict', [entry['op_config']])
      if any(o.kind == 'raise' for o in outs):
        continue  # reported by R4
      back = common.json_roundtrip(common.to_dict(ctx, outs[0].value))
      ctx.check(R, back == entry['op_config'], rel, rel, f'rule[{i}].op_config',
                f'get_quantization_recipe() would re-export {json.dumps(back, sort_keys=True)} '
                f'instead of the shipped {json.dumps(entry["op_config"], sort_keys=True)}')
      ctx.check(R, set(entry) == set(common.RECIPE_KEYS), rel, rel, f'rule[{i}] keys',
                f'default recipe rule keys {sorted(entry)} differ from the exported keys {sorted(common.RECIPE_KEYS)}')


def r6_recipe_py(ctx):
  R = 'C12.R6'
  ctx.rule(R, 'recipe.py helpers equal the shipped files of the same name', floor=1)
  m = ctx.repo.mod('recipe')
  for name, fi in m.functions.items():
    if '.' in name or name.startswith('_'):
      continue
    rel = f'{common.RECIPE_DIR}{name}_recipe.json'
    ctx.instance(R)
    outs = tables.call(ctx, fi.fq, [])
    if len(outs) != 1 or outs[0].kind != 'return':
      raise index.AnalysisError(f'{fi.fq} is no longer a constant recipe literal')
    val = common.json_roundtrip(outs[0].value)
    if rel in ctx.repo.json_files:
      ctx.check(R, val == ctx.repo.json_files[rel], fi.node, fi, f'{name}()',
                f'recipe.{name}() differs from {rel}')
    for i, entry in enumerate(val if isinstance(val, list) else []):
      common.validate_recipe_entry(ctx, R, f'{m.rel}:{name}', i, entry)


def r7_session_roundtrip(ctx):
  """A manager built by a sequence of updates, exported, passed through JSON and
  loaded into a fresh manager resolves every (operator, scope) like the
  original, and re-exports the same list. Decided over all update sequences of
  length <= 3 from a small rule alphabet with the repository's own add / export
  / load / resolve functions (path interpreter)."""
  import itertools  # pylint: disable=g-import-not-at-top
  from sa.rules import c11  # pylint: disable=g-import-not-at-top
  from sa import absint  # pylint: disable=g-import-not-at-top
  R = 'C12.R7'
  rs = ctx.rule(R, 'update sequence -> export -> JSON -> load into a fresh manager: same resolution for every (operator, scope), same re-export (sequences of up to 3 updates)', floor=1)
  RMq = 'recipe_manager:RecipeManager'
  add = ctx.repo.func(f'{RMq}.add_quantization_config')
  exp = ctx.repo.func(f'{RMq}.get_quantization_recipe')
  load = ctx.repo.func(f'{RMq}.load_quantization_recipe')
  res = ctx.repo.func(f'{RMq}.get_quantization_configs')
  ctx.instance(R)
  OP, ALG, drq, srq, bad = c11._domain(ctx)  # pylint: disable=protected-access
  MM, NOQ = ALG['MIN_MAX_UNIFORM_QUANT'], ALG['NO_QUANTIZE']
  FC, CONV, ALL = OP['FULLY_CONNECTED'], OP['CONV_2D'], OP['ALL_SUPPORTED']
  it = c11._mk_interp(ctx)  # pylint: disable=protected-access
  # a float-casting config written with plain strings where the dataclass declares (str-)enums: legal for a caller,
  # equal to the enum-valued config, and what a JSON recipe turns into before from_dict
  FCAST = ALG['FLOAT_CASTING']
  fc_str = tables.construct(ctx, common.OPCFG, weight_tensor_config=tables.tensor_config(ctx, num_bits=16, dtype='FLOAT'), compute_precision='FLOAT', explicit_dequantize=True)
  if not isinstance(fc_str, Obj):
    raise index.AnalysisError(f'C12.R7: string-valued float-casting config does not construct: {fc_str}')
  alphabet = [('.*', ALL, drq, MM), ('x', FC, srq, MM), ('.*', FC, drq, MM), ('x', ALL, srq, MM), ('y', CONV, drq, MM), ('.*', FC, None, NOQ), ('x', FC, drq, MM), ('x', FC, fc_str, FCAST), ('x', ALL, fc_str, FCAST)]
  queries = list(itertools.product([FC, CONV], ['x/y;', 'y;', 'zz;']))
  rs.exhaustive = True

  def fresh():
    o = it.construct(RMq, [], {}, None, 0)
    if not isinstance(o, Obj):
      raise index.AnalysisError(f'{RMq}.__init__ is not interpretable')
    return o

  def table(m):
    out = []
    for t, s in queries:
      q = it.outcomes(res, [m, t, s], copy_args=False)
      if len(q) != 1 or q[0].kind != 'return' or not isinstance(q[0].value, tuple):
        return None
      alg, cfg = q[0].value
      out.append((str(getattr(alg, 'value', alg)), cfg.frozen() if isinstance(cfg, Obj) else repr(cfg)))
    return out
  n = 0
  for k in (1, 2, 3):
    for seq in itertools.product(range(len(alphabet)), repeat=k):
      if k == 3 and ctx.tier == 'quick' and any(i >= 7 for i in seq):
        continue   # the quick tier takes triples from the first seven rules only; the thorough tier takes all
      a = fresh()
      okseq = True
      for i in seq:
        rx, op, cfg, alg = alphabet[i]
        o = it.outcomes(add, [a, rx, op, cfg, alg], copy_args=False)
        if len(o) != 1 or o[0].kind != 'return':
          okseq = False
          break
      if not okseq:
        continue   # a rejected update is not part of this rule (C11.R5)
      label = 'updates ' + ' -> '.join(f"({alphabet[i][0]!r}, {alphabet[i][1].name}, {alphabet[i][3].name})" for i in seq)
      e = it.outcomes(exp, [a], copy_args=False)
      if len(e) != 1 or e[0].kind != 'return' or not isinstance(e[0].value, list):
        ctx.check(R, False, exp.node, exp, label, f'export not decided: {[x.short()[:80] for x in e]}')
        continue
      try:
        exported = common.json_roundtrip(e[0].value)
      except Exception as ex:  # pylint: disable=broad-except
        ctx.check(R, False, exp.node, exp, label, f'the exported recipe is not JSON-serialisable: {ex}')
        continue
      b = fresh()
      l = it.outcomes(load, [b, exported], copy_args=False)
      if len(l) != 1 or l[0].kind != 'return':
        ctx.check(R, False, load.node, load, label, f'the exported recipe does not load into a fresh manager: {[x.short()[:100] for x in l]}')
        continue
      n += 1
      ta, tb = table(a), table(b)
      if ta is None or tb is None:
        ctx.check(R, False, res.node, res, label, 'resolution not decided')
        continue
      diff = [(queries[i][0].name, queries[i][1], ta[i][0], tb[i][0]) for i in range(len(queries)) if ta[i] != tb[i]]
      ctx.check(R, not diff, res.node, res, label,
                f'after export + load into a fresh manager {diff[0][0] if diff else ""} under scope {diff[0][1] if diff else ""!r} resolves differently '
                f'({diff[0][2] if diff else ""} config A before, {diff[0][3] if diff else ""} config B after): the saved recipe does not describe the session')
      e2 = it.outcomes(exp, [b], copy_args=False)
      same = len(e2) == 1 and e2[0].kind == 'return' and common.json_roundtrip(e2[0].value) == exported
      ctx.check(R, same, exp.node, exp, label, 're-export of the loaded recipe differs from the recipe that was loaded')
  ctx.sample(R, {'sequences': n, 'queries': len(queries)})



def r8_shipped_files_load(ctx, R='C12.R8'):
  """Every shipped recipes/*.json is handed, as parsed JSON, to the repository's own load_quantization_recipe on a
  fresh manager (path interpreter): it loads without raising, and the re-export, loaded into another fresh manager,
  resolves the probe (operator, scope) pairs identically. (Round 18: the loader read 'op_config' of a no_quantize
  entry that a shipped hand-written recipe omits; exported recipes always carry the key, so R7 could not see it.)"""
  import itertools  # pylint: disable=g-import-not-at-top
  from sa.rules import c11  # pylint: disable=g-import-not-at-top
  rs = ctx.rule(R, 'every shipped recipes/*.json loads through load_quantization_recipe (fresh manager) and survives export -> load', floor=6)
  RMq = 'recipe_manager:RecipeManager'
  exp = ctx.repo.func(f'{RMq}.get_quantization_recipe')
  load = ctx.repo.func(f'{RMq}.load_quantization_recipe')
  res = ctx.repo.func(f'{RMq}.get_quantization_configs')
  OP, _, _, _, _ = c11._domain(ctx)  # pylint: disable=protected-access
  it = c11._mk_interp(ctx)  # pylint: disable=protected-access
  queries = list(itertools.product([OP['FULLY_CONNECTED'], OP['CONV_2D']], ['x/y;', 'StatefulPartitionedCall:0;', 'zz;']))
  rs.exhaustive = True

  def fresh():
    o = it.construct(RMq, [], {}, None, 0)
    if not isinstance(o, Obj):
      raise index.AnalysisError(f'{RMq}.__init__ is not interpretable')
    return o

  def table(m):
    out = []
    for tq, s in queries:
      q = it.outcomes(res, [m, tq, s], copy_args=False)
      if len(q) != 1 or q[0].kind != 'return' or not isinstance(q[0].value, tuple):
        return None
      alg, cfg = q[0].value
      out.append((str(getattr(alg, 'value', alg)), cfg.frozen() if isinstance(cfg, Obj) else repr(cfg)))
    return out
  import copy  # pylint: disable=g-import-not-at-top
  for rel, data in sorted(ctx.repo.json_files.items()):
    if not rel.startswith(common.RECIPE_DIR) or not isinstance(data, list):
      continue
    ctx.instance(R)
    a = fresh()
    l = it.outcomes(load, [a, copy.deepcopy(data)], copy_args=False)
    if not ctx.check(R, len(l) == 1 and l[0].kind == 'return', rel, rel, 'load into a fresh manager',
                     f'the shipped recipe does not load: {[x.short()[:140] for x in l]}'):
      continue
    e = it.outcomes(exp, [a], copy_args=False)
    if len(e) != 1 or e[0].kind != 'return' or not isinstance(e[0].value, list):
      ctx.check(R, False, rel, rel, 'export', f'export of the loaded recipe not decided: {[x.short()[:80] for x in e]}')
      continue
    ctx.check(R, len(e[0].value) == len(data), rel, rel, f'{len(e[0].value)} exported rules', f'the file has {len(data)} rules (distinct regex / operation pairs are all kept)') if len({(d.get("regex"), d.get("operation")) for d in data if isinstance(d, dict)}) == len(data) else None
    b = fresh()
    l2 = it.outcomes(load, [b, common.json_roundtrip(e[0].value)], copy_args=False)
    if not ctx.check(R, len(l2) == 1 and l2[0].kind == 'return', rel, rel, 'export -> load', f'the re-exported recipe does not load: {[x.short()[:140] for x in l2]}'):
      continue
    ta, tb = table(a), table(b)
    if ta is None or tb is None:
      continue   # resolution of this file's configs is outside the interpreter's domain: decided by R7 / C11 on their lattices
    ctx.check(R, ta == tb, rel, rel, 'resolution after export -> load', 'the re-exported recipe resolves a probe (operator, scope) differently from the shipped file')

def run(ctx):
  ctx.assume('json.dumps/json.loads map str-enum members to their string value and keep dict/list/bool/int structure')
  r1_field_agreement(ctx)
  r2_key_agreement(ctx)
  r3_str_enums(ctx)
  r4_shipped_files(ctx)
  r5_fixpoint(ctx)
  r6_recipe_py(ctx)
  r7_session_roundtrip(ctx)
  r8_shipped_files_load(ctx)

LEVEL_TEXT = (
    'Static decision of the structural clauses of C12: for every value of the '
    'finite config lattice (640+ OpQuantizationConfig values, all field '
    'presences and enum members) the path enumeration of to_dict followed by '
    'from_dict returns an equal object; recipe keys written == read; every '
    'shipped recipe validates; default recipes are re-export fixpoints. This '
    'is exhaustive over the serialisation code paths, which the test suite '
    'samples with 3 recipes; it does not establish byte-identical '
    're-quantization.'
    ' Update sequence -> export -> JSON -> load into a fresh manager resolves identically (sequences of up to three updates, string-valued configs included).'
    ' Every shipped recipe file is loaded by the repository\'s own loader on the path interpreter (C12.R8).'
)
LEVEL_NOTE = (
    'Trusted: CPython ast, the sa interpreter for the control fragment '
    '(absint.py), json semantics for str-enums. Not decided: equality of the '
    'model produced from a reloaded recipe (follows only together with C11 and '
    'C14).'
)
TECHNIQUE = 'ast-based writer/reader table agreement + finite-lattice path enumeration (field lattice; update -> export -> load round trip) (static)'
