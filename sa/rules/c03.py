"""C03 - each op runs in exactly the mode its recipe rule selected."""
from __future__ import annotations

import ast
import itertools

from sa import absint
from sa import callgraph
from sa import cfg as cfgmod
from sa import defuse
from sa import index
from sa import oracles
from sa import tables
from sa.consteval import EnumVal, Obj
from sa.rules import common
from sa.rules import shared

EXPLANATION = (
    'Mode->transformation decision table of get_tensor_transformations '
    'enumerated exhaustively over the finite config lattice and compared with '
    'the specification; vertical-optimisation emit table enumerated over '
    'transformation pairs x parameter equality; structural rules for the '
    'non-float operand filter, the no-quantize path, config selection for '
    'constants, the float-casting materialisers, exact parameter equality and '
    'complete rewiring of repeated operands; resolution table over single-rule '
    'stores (unmatched scope / no_quantize / other op / unsupported config all '
    'resolve to no-quantize, at resolution time, for op-specific and * rules).'
)
LEVEL_TEXT = (
    'Exhaustive over the finite (precision x activation x weight granularity x '
    'explicit-dequantize x direction x constness) lattice for the mode table '
    'and over all 50 (producer, consumer, equal-params) pairs for the '
    'DQ/Q-elimination table, decided from the source of the deciding '
    'functions; plus path rules (every op-loop iteration files exactly one '
    'result, unknown and no_quantize ops take the all-NO_QUANTIZE path). Does '
    'not decide per-operand dtypes on concrete graphs.'
    ' Simulations over listed lattices: plan generation (one entry per operand occurrence), constant carries its data, and the whole pipeline calibrate -> plan -> instructions -> rewrite on three label graphs x rule lists with the property text as oracle (operand dtypes per operator mode).'
)
LEVEL_NOTE = (
    'Trusted: the specification table in rules/c03.py (O8), the sa path '
    'enumerator. Index bookkeeping inside _merge_materialized_tensors / '
    '_split_tensors_by_indices is only covered structurally (DESIGN.md '
    'section 8, blind spots).'
)
TECHNIQUE = 'decision-table extraction by path enumeration + CFG path rules + def-use origin checks + abstract interpretation of the repository functions over a finite lattice (label-model simulations compared with an independent expectation), incl. the whole pipeline with the property text as oracle (static)'

MMU = shared.MMU
NMM = shared.NMM


def QT(ctx, name):
  return tables.enum_member(ctx, 'qtyping:QuantTransformation', name)


def expected_transformations(ctx, cp, act, wgran, explicit, inbound, const):
  if cp == 'INTEGER' and act:
    if inbound:
      return ['QUANTIZE_TENSOR'] if const else ['ADD_QUANTIZE']
    return ['ADD_DEQUANTIZE']
  if cp == 'INTEGER' and not act:
    return ['QUANTIZE_TENSOR'] if (inbound and const) else ['NO_QUANTIZE']
  if wgran == 'BLOCKWISE' and const:
    return ['EMULATED_SUBCHANNEL']
  if cp == 'FLOAT' and explicit:
    return ['ADD_DEQUANTIZE'] if (inbound and const) else ['NO_QUANTIZE']
  return 'raise'


def r1_mode_table(ctx):
  R = 'C03.R1'
  rs = ctx.rule(R, 'mode -> transformation table equals the specification on the whole lattice', floor=1)
  f = ctx.repo.func(f'{MMU}:get_tensor_transformations')
  ctx.instance(R)
  CP = {e.name: e for e in tables.enum(ctx, 'qtyping:ComputePrecision')}
  G = {e.name: e for e in tables.enum(ctx, 'qtyping:QuantGranularity')}
  FLOATT = tables.enum_member(ctx, 'qtyping:TensorDataType', 'FLOAT')
  rows = 0
  rs.exhaustive = True
  for cpn, act_bits, wg, explicit, inbound, const in itertools.product(
      CP, [None, 8, 16], [None] + list(G), [False, True], [False, True], [False, True]):
    act = tables.tensor_config(ctx, num_bits=act_bits) if act_bits else None
    w = None
    if wg is not None:
      w = tables.tensor_config(ctx, num_bits=8, granularity=G[wg], block_size=32 if wg == 'BLOCKWISE' else 0)
    cfg = tables.construct(ctx, common.OPCFG, activation_tensor_config=act, weight_tensor_config=w,
                           compute_precision=CP[cpn], explicit_dequantize=explicit)
    if not isinstance(cfg, Obj):
      continue  # rejected by __post_init__: not a reachable config
    rows += 1
    outs = tables.call(ctx, f.fq, [cfg, inbound, const])
    want = expected_transformations(ctx, cpn, act is not None, wg, explicit, inbound, const)
    got = []
    for o in outs:
      if o.kind == 'raise':
        got.append('raise')
      else:
        got.append([t.name if isinstance(t, EnumVal) else repr(t) for t in (o.value or [])])
    ok = len(got) == 1 and got[0] == want
    ctx.check(R, ok, f.node, f,
              f'precision={cpn} activation={act_bits} weight={wg} explicit_dequantize={explicit} inbound={inbound} constant={const}',
              f'get_tensor_transformations gives {got}, the mode table requires {want}')
    if rows == 5:
      ctx.sample(R, {'row': f'{cpn}/act{act_bits}/{wg}/explicit={explicit}/inbound={inbound}/const={const}', 'result': got})
  ctx.extra['mode_table_rows'] = rows
  if rows < 120:
    raise index.AnalysisError(f'{R}: only {rows} lattice rows could be constructed')


def r2_non_float_filter(ctx):
  R = 'C03.R2'
  ctx.rule(R, 'non-float32 operands are filtered out before any tensor is materialised', floor=23)
  cg = callgraph.get(ctx)
  mso = ctx.repo.func(f'{MMU}:materialize_standard_op')
  g = cfgmod.build(mso.node)
  filt_nodes = []
  for n in g.nodes:
    for c in n.calls():
      callee = ctx.repo.resolve_expr(mso.module, c.func) if isinstance(c.func, (ast.Name, ast.Attribute)) else None
      if callee is not None and callee.kind == 'func':
        # a call one of whose arguments folds to [FLOAT32]
        for a in list(c.args) + [k.value for k in c.keywords]:
          try:
            v = ctx.ev.eval(defuse.Inliner(ctx.repo).inline(mso, a), mso.module, {})
          except Exception:  # pylint: disable=broad-except
            continue
          if isinstance(v, list) and v and all(getattr(x, 'value', x) == oracles.TENSOR_TYPE['FLOAT32'] for x in v):
            filt_nodes.append((n, c, callee.obj))
  ok = ctx.check(R, len(filt_nodes) >= 1, mso.node, mso, 'dtype filter call',
                 'materialize_standard_op no longer filters operands by dtype [FLOAT32]')
  if ok:
    n, c, filt = filt_nodes[0]
    # the filter result must feed the ignore lists used afterwards and dominate every materialisation helper
    st = common.stmt_of(mso.node, c)
    targets = set()
    if isinstance(st, ast.Assign):
      for t in st.targets:
        targets |= defuse.names_in(t)
    ctx.check(R, {'inputs_to_ignore', 'outputs_to_ignore'} <= targets or len(targets) >= 2, c, mso, st,
              'the result of the dtype filter is not bound to the ignore lists')
    helpers = []
    for n2 in g.nodes:
      for c2 in n2.calls():
        nm = common.call_name(c2)
        if nm.startswith('_materialize_standard_op') or nm.startswith('_split_tensors_by_indices'):
          helpers.append(n2)
    for h in helpers:
      ctx.check(R, g.every_path_passes(g.entry.id, h.id, {n.id}), h.ast, mso, h.ast,
                'a tensor is materialised on a path that bypasses the non-float32 operand filter')
    # the split uses the filtered lists
    for n2 in g.nodes:
      for c2 in n2.calls():
        if common.call_name(c2).startswith('_split_tensors_by_indices'):
          args = {ast.unparse(a) for a in c2.args}
          ctx.check(R, bool(args & targets), c2, mso, c2, '_split_tensors_by_indices is not given the filtered ignore list')
    # inside the filter: keep-set comes from the dtype test, ignore = all - keep
    fsrc = ast.unparse(filt.node)
    ctx.check(R, '_tensor_indices_with_dtype' in fsrc, filt.node, filt, 'keep set', 'the filter no longer selects operands by tensor dtype')
    sel = ctx.repo.func(f'{MMU}:_tensor_indices_with_dtype')
    # the selection itself is decided on values: exactly the positions whose tensor has one of the given type codes
    it_ = tables.interp(ctx)
    for types, operands, codes in (([0, 2, 0, 9], [0, 1, 2, 3], [0]), ([0, 2, 0, 9], [3, 1, 0], [0]), ([2, 2], [0, 1], [0]), ([0, 9, 2], [2, 1, 0, 1], [2, 9]), ([0], [], [0])):
      ts = [Obj('x:TensorT', {'name': f't{k}'.encode(), 'type': t}) for k, t in enumerate(types)]
      outs = it_.outcomes(sel, [list(operands), ts, list(codes)])
      want = [i for i, o in enumerate(operands) if types[o] in codes]
      label = f'operands {operands} of tensors typed {types}, codes {codes}'
      if len(outs) != 1 or outs[0].kind != 'return':
        ctx.check(R, False, sel.node, sel, label, f'not decided: {[o.short()[:80] for o in outs]}')
        continue
      ctx.check(R, list(outs[0].value) == want if isinstance(outs[0].value, (list, tuple)) else False, sel.node, sel, f'{label} -> {outs[0].value!r}',
                f'operand selection must return the positions {want} whose tensor type is one of the codes')
    # input/output halves of the filter are siblings
    halves = {'in': [], 'out': []}
    for stx in filt.node.body:
      txt = ast.unparse(stx)
      if isinstance(stx, (ast.Assign, ast.AugAssign)):
        if 'output' in txt and 'input' not in txt:
          halves['out'].append(txt.replace('output', 'X'))
        elif 'input' in txt and 'output' not in txt:
          halves['in'].append(txt.replace('input', 'X'))
    ctx.check(R, halves['in'] == halves['out'] and halves['in'], filt.node, filt, 'input/output halves',
              f'the input and output halves of the dtype filter differ: {halves["in"]} vs {halves["out"]}')
  # every MIN_MAX materialiser reaches materialize_standard_op
  reg = tables.registry(ctx)
  for alg, ops in reg.items():
    if alg.name != 'MIN_MAX_UNIFORM_QUANT':
      continue
    for op, entry in ops.items():
      ctx.instance(R)
      fi = ctx.repo.func(entry['materialize'].fq)
      chain = cg.reachable([fi.fq])
      ctx.check(R, mso.fq in chain, fi.node, fi, f'{op.name} -> {fi.name}',
                f'materialiser registered for {op.name} does not go through materialize_standard_op (no dtype filter)')
      # op-specific index operands are ignored explicitly (O4)
      want = oracles.INDEX_OPERANDS.get(op.name)
      if want is not None:
        got = None
        for c in common.calls_in(fi.node):
          if common.call_name(c).endswith('materialize_standard_op'):
            for kname, kval in common.named_args(ctx, fi, c).items():
              if kname == 'inputs_to_ignore':
                try:
                  got = ctx.ev.eval(defuse.Inliner(ctx.repo).inline(fi, kval), fi.module, {})
                except Exception:  # pylint: disable=broad-except
                  got = 'unfoldable'
        ctx.check(R, isinstance(got, list) and set(want) <= set(got), fi.node, fi, f'{op.name} inputs_to_ignore={got}',
                  f'{op.name}: index/shape operands {want} must be excluded from quantization, materialiser ignores {got}')


def r3_no_quant_totality(ctx):
  R = 'C03.R3'
  ctx.rule(R, 'unknown and no_quantize ops emit NO_QUANTIZE for every operand; one result per op', floor=2)
  gen = ctx.repo.func('params_generator:ParamsGenerator.generate_quantization_parameters')
  g = cfgmod.build(gen.node)
  loops = [n for n in g.nodes if n.kind == 'for' and 'operators' in ast.unparse(n.ast.iter)]
  if len(loops) != 1:
    raise index.AnalysisError(f'{gen.fq}: expected one loop over subgraph operators, found {len(loops)}')
  head = loops[0]
  ctx.instance(R)
  upd = {n.id for n in g.nodes if any(common.call_name(c).endswith('_update_model_quant_results') for c in n.calls())}
  mn, mx = g.iteration_count(head.id, upd)
  ctx.check(R, (mn, mx) == (1, 1), head.ast, gen, 'op loop: _update_model_quant_results',
            f'an operator iteration files its result {mn}..{">1" if mx > 1 else mx} times (must be exactly once on every path)')
  # branches: unknown op code and NO_QUANTIZE take _get_params_for_no_quant_op
  inl = defuse.Inliner(ctx.repo)
  noq_calls = [c for c in common.calls_in(gen.node) if common.call_name(c).endswith('_get_params_for_no_quant_op')]
  ctx.check(R, len(noq_calls) >= 2, gen.node, gen, '_get_params_for_no_quant_op call sites',
            'the unknown-op-code and the NO_QUANTIZE branch no longer both use _get_params_for_no_quant_op')
  tests = [n for n in g.nodes if n.kind == 'if']
  seen_unknown = seen_noq = False
  for n in tests:
    t = ast.unparse(n.ast.test)
    if 'TFL_OP_CODE_TO_NAME' in t and 'not in' in t:
      seen_unknown = True
      body_calls = [common.call_name(c) for st in n.ast.body for c in common.calls_in(st)]
      ctx.check(R, any(x.endswith('_get_params_for_no_quant_op') for x in body_calls) and any(x.endswith('_update_model_quant_results') for x in body_calls),
                n.ast, gen, n.ast.test, 'unknown op codes are skipped without recording NO_QUANTIZE for their tensors')
    if 'NO_QUANTIZE' in t and '==' in t:
      seen_noq = True
      body_calls = [common.call_name(c) for st in n.ast.body for c in common.calls_in(st)]
      ctx.check(R, any(x.endswith('_get_params_for_no_quant_op') for x in body_calls), n.ast, gen, n.ast.test,
                'the NO_QUANTIZE branch does not build all-NO_QUANTIZE params')
  ctx.check(R, seen_unknown and seen_noq, gen.node, gen, 'branches', 'cannot find the unknown-op / NO_QUANTIZE branches')
  opvar = head.ast.target.elts[-1].id if isinstance(head.ast.target, ast.Tuple) else head.ast.target.id
  for c in noq_calls:
    args = [ast.unparse(a) for a in c.args]
    ctx.check(R, len(args) == 3 and args[1] == opvar and args[2].endswith('.tensors'), c, gen, c, 'no-quant params are built for a different op/tensor list than the loop\'s own')
  nq = ctx.repo.func('params_generator:ParamsGenerator._get_params_for_no_quant_op')
  ctx.instance(R)
  fl = [n for n in common.walk_no_nested(nq.node) if isinstance(n, ast.For)]
  srcs = sorted(ast.unparse(l.iter) for l in fl)
  ctx.check(R, srcs == ['op.inputs', 'op.outputs'], nq.node, nq, f'loops over {srcs}', 'no-quant params must cover op.inputs and op.outputs')
  gq = cfgmod.build(nq.node)
  for l in fl:
    head = gq.node_of(l)
    apps = {n.id for n in gq.nodes if n.kind == 'stmt' and any(isinstance(c.func, ast.Attribute) and c.func.attr == 'append' for c in n.calls())}
    body = gq.loop_body_nodes(head.id)
    guard = [n for n in body if gq.nodes[n].kind == 'if']
    gt_ = gq.nodes[guard[0]].ast if len(guard) == 1 else None
    as_guard = gt_ is not None and len(gt_.body) == 1 and isinstance(gt_.body[0], ast.Continue) and not gt_.orelse
    ok = gt_ is not None and ast.unparse(gt_.test).replace(' ', '') in ((f'{l.target.id}==-1', f'{l.target.id}<0') if as_guard else (f'{l.target.id}!=-1', f'{l.target.id}>=0'))
    ctx.check(R, ok, l, nq, l, 'the only operand skipped by the no-quant path must be the absent operand -1')
    # appended value carries [NO_QUANTIZE]
  helper = ast.unparse(nq.node)
  ctx.check(R, 'transformations=[_QuantTrans.NO_QUANTIZE]' in helper.replace(' ', '').replace('transformations=', 'transformations=') or 'NO_QUANTIZE]' in helper,
            nq.node, nq, 'NO_QUANTIZE list', 'no-quant params no longer carry [NO_QUANTIZE]')
  kinds = {'consumers': 0, 'producer': 0}
  for l in fl:
    for c in common.calls_in(l):
      if common.call_name(c).endswith('TensorTransformationParams'):
        for k in c.keywords:
          if k.arg in kinds:
            kinds[k.arg] += 1
            want = 'consumers' if ast.unparse(l.iter) == 'op.inputs' else 'producer'
            ctx.check(R, k.arg == want, c, nq, c, f'operands of {ast.unparse(l.iter)} must be filed as {want}')
  ctx.check(R, kinds['consumers'] >= 1 and kinds['producer'] >= 1, nq.node, nq, 'consumer/producer entries', 'inputs must be filed as consumers and outputs as producer')


def r4_vertical_table(ctx):
  R = 'C03.R4'
  rs = ctx.rule(R, 'DQ/Q elimination, requantize and DQ/no-quant emit table equals the specification', floor=1)
  f = ctx.repo.func('transformation_instruction_generator:TransformationInstructionsGenerator._apply_vertical_optimization')
  ctx.instance(R)
  members = tables.enum(ctx, 'qtyping:QuantTransformation')
  TI = 'qtyping:TransformationInst'
  it = tables.interp(ctx)
  rs.exhaustive = True
  rows = 0
  # consumer entries come one per operand OCCURRENCE (an op reading the tensor twice is listed twice), the
  # producer's consumer list comes from graph info, one per OPERATOR: both multiplicities are enumerated
  for pt, ct, same in itertools.product(members, members, [True, False]):
    for extra_consumer, group in itertools.product((False, True), ([2, 5], [2, 2, 5], [5, 2, 2])):
      prod_consumers = [2, 5] + ([7] if extra_consumer else [])
      prod = Obj(TI, {'transformation': pt, 'tensor_id': 3, 'producer': 1, 'consumers': list(prod_consumers), 'parameters': 'P'})
      cons = Obj(TI, {'transformation': ct, 'tensor_id': 3, 'producer': 1, 'consumers': list(group), 'parameters': 'P' if same else 'C'})
      outs = it.outcomes(f, [Obj(f.cls.fq if f.cls is not None else 'x:self', {}), prod, [cons]])
      rows += 1
      label = f'producer={pt.name} consumer={ct.name} same_params={same} other_consumers={extra_consumer} consumer entries={group}'
      if len(outs) != 1 or outs[0].kind != 'return':
        ctx.check(R, False, f.node, f, label, f'table row is not decided or raises: {[o.short() for o in outs]} - quantize() fails on a legal graph (an operator reading the tensor twice)')
        continue
      res = outs[0].value
      got = [(x.fields['transformation'].name, x.fields['parameters'], list(x.fields['consumers'])) for x in res]
      if pt.name == 'ADD_DEQUANTIZE' and ct.name == 'ADD_QUANTIZE' and same:
        want_tail = [('QUANTIZE_TENSOR', 'P', group)]
        removed = True
      elif pt.name == 'ADD_DEQUANTIZE' and ct.name == 'ADD_QUANTIZE' and not same:
        want_tail = [('QUANTIZE_TENSOR', 'P', group), ('ADD_QUANTIZE', 'C', group)]
        removed = True
      elif pt.name == 'ADD_DEQUANTIZE' and ct.name == 'NO_QUANTIZE':
        want_tail = [('ADD_DEQUANTIZE', 'P', group)]
        removed = True
      else:
        want_tail = [(ct.name, 'P' if same else 'C', group)]
        removed = False
      left = [c for c in prod_consumers if not (removed and c in (2, 5))]
      want = ([(pt.name, 'P', left)] if left else []) + want_tail
      ctx.check(R, got == want, f.node, f, label, f'vertical optimisation emits {got}, specification requires {want}')
      if rows == 3:
        ctx.sample(R, {'producer': pt.name, 'consumer': ct.name, 'same': same, 'emits': got})
  # the three predicates are pairwise disjoint by construction of the table above
  ctx.extra['vertical_table_rows'] = rows


def r6_config_selection(ctx):
  R = 'C03.R6'
  ctx.rule(R, 'a constant operand gets the weight config iff the op is a weight op, with or without collected statistics (table over the registry); bias constness only under SRQ', floor=2)
  f = ctx.repo.func(f'{MMU}:_get_tensor_transformation_params_wrapper')
  ctx.instance(R)
  # Decided on values: the wrapper is run for every operator of the registry with the parameter computation replaced by
  # a probe that records WHICH configuration it is handed. A constant operand must be quantized with the weight
  # configuration iff the operator is a weight op (oracles.WEIGHT_OPS), every other tensor with the activation
  # configuration - whether its statistics were collected or are computed on the spot (recipe extended after calibration).
  from sa.ndarr import NdArr  # pylint: disable=g-import-not-at-top
  CP = {e.name: e for e in tables.enum(ctx, 'qtyping:ComputePrecision')}
  wcfg = tables.tensor_config(ctx, num_bits=8, symmetric=True)
  acfg = tables.tensor_config(ctx, num_bits=16, symmetric=True)
  cfg = tables.construct(ctx, common.OPCFG, weight_tensor_config=wcfg, activation_tensor_config=acfg, compute_precision=CP['INTEGER'])
  MM = tables.enum_member(ctx, 'algorithm_manager:AlgorithmName', 'MIN_MAX_UNIFORM_QUANT')
  reg = tables.registry(ctx)
  seen = []
  hooks = {
      'tfl_flatbuffer_utils.get_tensor_name': lambda a_, k: 't',
      f'{MMU}:_get_tensor_quant_params': lambda a_, k: (seen.append(k.get('tensor_quant_config', a_[2] if len(a_) > 2 else None)) or Obj('qtyping:UniformQuantParams', {
          'num_bits': 8, 'quantized_dimension': None, 'scale': 'S', 'zero_point': 'Z', 'symmetric': True, 'quantized_data': 'DATA', 'block_size': 0, 'hadamard': None})),
      f'{MMU}:init_tensor_min_max': lambda a_, k: {'min': 0, 'max': 1},
      f'{MMU}:get_tensor_transformation_params': lambda a_, k: 'PARAMS',
  }
  n_rows = 0
  for op in sorted(reg.get(MM, {}), key=lambda e: e.name):
    for constant in (True, False):
      for stats in ('collected', 'missing'):
        if not constant and stats == 'missing':
          continue   # a runtime tensor without statistics is refused (C10)
        del seen[:]
        content = NdArr((2, 2), [1, 2, 3, 4]) if constant else None
        it = absint.Interp(ctx.repo, ctx.ev, hooks=dict(hooks, **{'tfl_flatbuffer_utils.get_tensor_data': lambda a_, k, content=content: content}))
        op_info = Obj('qtyping:OpInfo', {'op': Obj('x:OperatorT', {'inputs': [0], 'outputs': [1]}), 'op_name': op, 'subgraph_op_index': 0, 'op_quant_config': cfg})
        gi = Obj('qtyping:GraphInfo', {'subgraph_tensors': [], 'buffers': []})
        outs = it.outcomes(f, [Obj('x:TensorT', {'name': b't', 'shape': [2, 2], 'buffer': 1}), True, op_info, gi, ({'t': {'min': 0, 'max': 1}} if stats == 'collected' else {}), None], copy_args=False)
        label = f'{op.name}, {"constant" if constant else "runtime"} operand, statistics {stats}'
        if len(outs) != 1 or outs[0].kind != 'return' or len(seen) != 1:
          ctx.check(R, False, f.node, f, label, f'not decided: {[o.short()[:80] for o in outs]} / {len(seen)} parameter computations')
          continue
        n_rows += 1
        want_w = constant and op.name in oracles.WEIGHT_OPS
        got = 'weight' if seen[0] == wcfg and seen[0] != acfg else ('activation' if seen[0] == acfg else repr(seen[0]))
        ctx.check(R, got == ('weight' if want_w else 'activation'), f.node, f, f'{label} -> {got} configuration',
                  f'must be quantized with the {"weight" if want_w else "activation"} configuration: '
                  + ('the operand is a weight' if want_w else 'it is an operand of the op\'s arithmetic, a static-range op reads every float operand in the activation width (with 16-bit activations an 8-bit constant is rejected by the runtime)'))
  ctx.sample(R, {'rows': n_rows})
  # bias: is_constant true only under the SRQ predicate
  b = ctx.repo.func(f'{NMM}:_materialize_bias_for_conv_ops')
  ctx.instance(R)
  ctx.rule(R + 'c', 'construction part of C03.R6: bias constness is spelled with the static-range predicate')
  gtt = ctx.repo.func(f'{MMU}:get_tensor_transformations')
  srq = None
  for st in gtt.node.body:
    if isinstance(st, ast.If):
      srq = defuse.norm(st.test)
      break
  want = (srq or '').replace('op_quant_config', 'CFG').replace('qtyping.ComputePrecision', 'CP').replace('_ComputePrecision', 'CP')
  calls = [c for c in common.calls_in(b.node) if common.call_name(c).endswith('get_tensor_transformation_params')]
  inl0 = defuse.Inliner(ctx.repo, max_depth=0)
  found = []
  ok = False
  for c in calls:
    kw = common.named_args(ctx, b, c)
    if 'is_constant' in kw:
      found.append(defuse.norm(inl0.inline(b, kw['is_constant'])).replace('op_info.op_quant_config', 'CFG').replace('_ComputePrecision', 'CP').replace('qtyping.ComputePrecision', 'CP'))
    if 'is_inbounding_tensor' in kw and defuse.norm(kw['is_inbounding_tensor']) == 'True':
      ok = True
  ctx.check(R + 'c', found and all(x == want for x in found), b.node, b, f'is_constant = {found}',
            f'bias is treated as a constant under {found}, must be exactly the static-range predicate {want}')
  ctx.check(R + 'c', ok, b.node, b, 'bias transformation params', 'bias params must be built with is_inbounding_tensor=True')


def r7_float_casting(ctx):
  R = 'C03.R7'
  ctx.rule(R, 'float-casting materialisers: weight -> [ADD_DEQUANTIZE] fp16, everything else NO_QUANTIZE', floor=5)
  reg = tables.registry(ctx)
  inl = defuse.Inliner(ctx.repo)
  cg = callgraph.get(ctx)
  for alg, ops in reg.items():
    if alg.name != 'FLOAT_CASTING':
      continue
    for op, entry in ops.items():
      ctx.instance(R)
      fi = ctx.repo.func(entry['materialize'].fq)
      # follow thin wrappers (materialize_embedding_lookup -> materialize_fc_conv)
      seen = set()
      while True:
        rets = [n for n in common.walk_no_nested(fi.node) if isinstance(n, ast.Return) and isinstance(n.value, ast.Call)]
        body = [s for s in fi.node.body if not (isinstance(s, ast.Expr) and isinstance(s.value, ast.Constant))]
        if len(body) == 1 and rets:
          s = ctx.repo.resolve_expr(fi.module, rets[0].value.func)
          if s.kind == 'func' and s.obj.fq not in seen:
            seen.add(fi.fq)
            fi = s.obj
            continue
        break
      parse = [c for c in common.calls_in(fi.node) if common.call_name(c).endswith('parse_fc_bmm_conv_tensors')]
      if not ctx.check(R, len(parse) == 1, fi.node, fi, f'{op.name}: operand parse', 'cannot find the operand parse of the float-casting materialiser'):
        continue
      pf = ctx.repo.func('utils.tfl_flatbuffer_utils:parse_fc_bmm_conv_tensors')
      idx = {}
      for p in ('input_index', 'weight_index', 'bias_index'):
        d = pf.param_default(p)
        idx[p] = d.value if isinstance(d, ast.Constant) else None
      for k in parse[0].keywords:
        if k.arg in idx and isinstance(k.value, ast.Constant):
          idx[k.arg] = k.value.value
      for i, a in enumerate(parse[0].args[2:]):
        key = ['input_index', 'weight_index', 'bias_index'][i] if i < 3 else None
        if key and isinstance(a, ast.Constant):
          idx[key] = a.value
      lay = oracles.OPERANDS.get(op.name, {})
      want_w = lay.get('weight')
      ctx.check(R, idx['weight_index'] == want_w, parse[0], fi, f'{op.name}: weight operand index {idx["weight_index"]}',
                f'{op.name}: weight is operand {want_w} in the TFLite schema, materialiser uses {idx["weight_index"]}')
      if 'bias' in lay:
        ctx.check(R, idx['bias_index'] == lay['bias'], parse[0], fi, f'{op.name}: bias operand index {idx["bias_index"]}',
                  f'{op.name}: bias is operand {lay["bias"]}, materialiser uses {idx["bias_index"]}')
      # the parsed names
      st = common.stmt_of(fi.node, parse[0])
      names = [e.id for e in st.targets[0].elts] if isinstance(st, ast.Assign) and isinstance(st.targets[0], ast.Tuple) else []
      if len(names) != 4:
        raise index.AnalysisError(f'{fi.loc(st)}: operand parse is no longer unpacked into 4 names')
      weight_name = names[1]
      # every OpToTensorParams built in the call tree
      tree = cg.reachable([fi.fq])
      deq = 0
      for fq in tree:
        g = ctx.repo.func(fq)
        if g.module.short != fi.module.short:
          continue
        for c in common.calls_in(g.node):
          if common.call_name(c).endswith('OpToTensorParams'):
            kw = {k.arg: k.value for k in c.keywords}
            tr = ast.unparse(kw['transformations']) if 'transformations' in kw else ''
            if 'ADD_DEQUANTIZE' in tr:
              deq += 1
              ctx.check(R, tr.replace(' ', '').endswith('ADD_DEQUANTIZE]') and tr.count('.') <= 2 and ',' not in tr, c, g, c,
                        f'weight transformation list must be exactly [ADD_DEQUANTIZE], got {tr}')
              p = inl.inline(g, kw.get('parameters')) if 'parameters' in kw else None
              ptxt = defuse.norm(p) if p is not None else ''
              ctx.check(R, 'NonLinearQuantParams' in ptxt and 'num_bits=16' in ptxt.replace(' ', ''), c, g, c,
                        'weight params must be NonLinearQuantParams(num_bits=16, ...)')
            else:
              ctx.check(R, tr.replace(' ', '').endswith('NO_QUANTIZE]'), c, g, c,
                        f'non-weight operands of a float-casting op must be [NO_QUANTIZE], got {tr}')
      ctx.check(R, deq == 1, fi.node, fi, f'{op.name}: ADD_DEQUANTIZE entries={deq}', 'exactly one operand (the weight) gets ADD_DEQUANTIZE')
      # the ADD_DEQUANTIZE entry is filed under the weight tensor's name
      src = defuse.norm(fi.node)
      ok = False
      for c in common.calls_in(fi.node):
        if common.call_name(c).endswith('TensorTransformationParams'):
          kw = {k.arg: ast.unparse(k.value) for k in c.keywords}
          if 'consumers' in kw and 'tensor_name' in kw and weight_name in kw['tensor_name']:
            ok = True
        if common.call_name(c).endswith('_config_fp16_weight_tensor') or ('weight' in common.call_name(c) and any(isinstance(a, ast.Name) and a.id == weight_name for a in c.args)):
          ok = ok or any(isinstance(a, ast.Name) and a.id == weight_name for a in c.args)
      ctx.check(R, ok, fi.node, fi, f'{op.name}: weight entry name', 'the ADD_DEQUANTIZE entry is not filed under the weight tensor')


def r8_exact_equality(ctx):
  shared.rule_exact_equality(ctx, 'C03.R8')


def r9_rewire_multiplicity(ctx):
  R = 'C03.R9'
  ctx.rule(R, 'every occurrence of a repeated operand is rewired (per-pass completeness or per-occurrence consumer entries)', floor=2)
  trans = shared.insertion_transformations(ctx)
  roots = [trans[k] for k in ('ADD_QUANTIZE', 'ADD_DEQUANTIZE') if k in trans]
  if len(roots) != 2:
    raise index.AnalysisError('ADD_QUANTIZE/ADD_DEQUANTIZE are no longer registered')
  b_ok, b_why = shared.consumers_keep_multiplicity(ctx)
  seen = set()
  for root in roots:
    stores = shared.find_rewire_stores(ctx, [root], 'inputs')
    n = 0
    for f, st, tgt in stores:
      base = tgt.value.value
      # stores on a freshly constructed operator are construction, not rewiring
      if isinstance(base, ast.Name):
        defs = defuse.own_assignments(f.node).get(base.id, [])
        if defs and all(isinstance(d, ast.Call) and common.call_name(d).endswith('OperatorT') for d in defs if d is not None):
          continue
      n += 1
      if id(st) in seen:
        continue
      seen.add(id(st))
      a_ok, a_why = shared.rewire_all_occurrences(ctx, f, st)
      ctx.check(R, a_ok or b_ok, st, f, st,
                f'{a_why}; and {b_why}: an op reading the tensor through two operands keeps one operand on the old tensor')
      if not a_ok and b_ok:
        ctx.note(f'{f.loc(st)}: {a_why} (harmless only because consumer lists carry one entry per operand occurrence)')
    if n < 1:
      raise index.AnalysisError(f'{R}: no consumer rewiring store found in the call tree of {root.fq}')
    ctx.instance(R)


def run(ctx):
  ctx.assume('QuantTransformation semantics as documented in qtyping.py (O8 table in rules/c03.py)')
  r1_mode_table(ctx)
  r2_non_float_filter(ctx)
  r3_no_quant_totality(ctx)
  r4_vertical_table(ctx)
  shared.rule_ladders(ctx, 'C03.R5')
  r6_config_selection(ctx)
  r7_float_casting(ctx)
  r8_exact_equality(ctx)
  r9_rewire_multiplicity(ctx)
  shared.rule_graph_rewrite_simulation(ctx, 'C03.R11', 'graph rewriting on label graphs: every occurrence of the tensor in a covered consumer reads the new tensor, uncovered consumers keep the source; the tensor annotated as quantized is the one the mode requires')
  from sa.rules import c05, c10, c11  # pylint: disable=g-import-not-at-top
  shared.rule_pipeline_simulation(ctx, 'C03.R14')
  shared.rule_no_swallowed_errors(ctx, 'C03.R15')
  shared.rule_operator_sweep(ctx, 'C03.R16')
  c05.r10_constant_carries_data(ctx, 'C03.R13')
  c10.r7_selection_simulation(ctx, 'C03.R12', 'plan')
  c11.r23_resolution_table(ctx, 'C03.R10', 'an op resolves to no-quantize when its scope is unmatched, the rule says no_quantize, the rule targets another op, '
                           'or the rule\'s config is not supported for the op (single-rule stores x 3 ops x 3 scopes)', single_only=True)
