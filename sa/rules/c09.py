"""C09 - calibration statistics are exact, order-faithful and resumable."""
from __future__ import annotations

import ast

from sa import algebra
from sa import callgraph
from sa import cfg as cfgmod
from sa import defuse
from sa import effects
from sa import index
from sa import oracles
from sa import tables
from sa.consteval import Obj
from sa.rules import common
from sa.rules import shared
from sa.rules import c10
from sa.rules import c14

EXPLANATION = (
    'Copy barrier on resume (alias/effect analysis), the moving-average fold as '
    'a rational function (identity with 0.95*old + 0.05*new), the once-per-'
    'sample de-duplication as a typestate over the sample loop, min/max key '
    'coherence of every statistics slot, first-sample initialisation, purity of '
    'the update functions, preserved interpreter tensors, and - for '
    'resumability - that a resumed session walks exactly the operators of a '
    'fresh one (state that only initialisation sets up must not be needed by '
    'the per-sample loop).'
)
LEVEL_TEXT = (
    'Decides the structural preconditions of exact, order-faithful, resumable '
    'statistics on every path of Calibrator: the fold is exactly the EMA with '
    'weight 0.95, each tensor is folded at most once per sample, min slots are '
    'never fed by max-flavoured values, a loaded previous result is copied, '
    'and nothing the per-sample loop depends on is established only on the '
    'not-resumed path. It does not decide equality with the float model\'s '
    'true per-sample min/max (interpreter behaviour).'
    ' Numeric simulation of calibrate() on a label model (exact arrays): moving average in dataset order, constants exact, resume equivalence, previous result untouched.'
)
LEVEL_NOTE = (
    'Trusted: sa engines; np.min/np.max/np.minimum/np.maximum named as such. '
    'Not decided: interpreter tensor contents, numpy reductions.'
)
TECHNIQUE = 'alias/effect analysis + rational-function identity + CFG typestate + numeric simulation of calibration on a label model (abstract interpretation, exact arrays) (static)'

CAL = 'calibrator:Calibrator'
CU = 'utils.calibration_utils'
MAXISH = ('max', 'maximum', 'amax', 'nanmax')
MINISH = ('min', 'minimum', 'amin', 'nanmin')


def r1_copy_barrier(ctx):
  R = 'C09.R1'
  ctx.rule(R, 'a previous calibration result is copied on load, never updated in place', floor=2)
  eff = effects.get(ctx)
  cal = ctx.repo.cls(CAL)
  ctx.instance(R)
  n = c14.cross_method(ctx, R, cal, eff)
  load = cal.methods.get('load_model_qsvs')
  if load is None:
    raise index.AnalysisError('Calibrator.load_model_qsvs not found')
  s = eff.summary(load.fq)
  esc = [(k, r) for k, vals in s.esc.items() for r in vals if r.root == 'p:' + load.pos_params[1]]
  ctx.check(R, not esc, load.node, load, f'load_model_qsvs escapes {esc[:2]}',
            'the loaded statistics are stored by reference: calibrate() then updates the caller\'s previous result in place')
  q = ctx.repo.func('quantizer:Quantizer.calibrate')
  ctx.instance(R)
  sq = eff.summary(q.fq)
  hits = [(k, w) for k, w in sq.mut.items() if k[0] == 'p:previous_calibration_result']
  for (root, path), w in hits:
    ctx.check(R, False, w.where, q, f'{effects.fmt_path(root, path)} mutated', f'calibrate() may mutate the previous calibration result: {w.text}', path=w.steps())
  if not hits:
    ctx.check(R, True, q.node, q, 'previous_calibration_result', '')
  # the result handed back is the calibrator's own state, and a resumed call loads before calibrating
  g = cfgmod.build(q.node)
  loads = [n_ for n_ in g.nodes if any(common.call_name(c).endswith('.load_model_qsvs') for c in n_.calls())]
  cals = [n_ for n_ in g.nodes if any(common.call_name(c).endswith('.calibrate') for c in n_.calls())]
  ok = len(loads) == 1 and len(cals) == 1 and cals[0].id in g.reachable([loads[0].id]) and loads[0].id not in g.reachable([cals[0].id])
  ctx.check(R, ok, q.node, q, 'load before calibrate', 'the previous result must be loaded before (and only before) the calibration run')
  if loads:
    guard = [n_ for n_ in g.nodes if n_.kind == 'if' and 'previous_calibration_result' in ast.unparse(n_.ast.test)]
    ctx.check(R, bool(guard) and 'is not None' in ast.unparse(guard[0].ast.test), q.node, q, 'resume guard',
              'an empty previous result ({}) is still a result: resume must be keyed on "is not None"')


def r2_fold(ctx):
  R = 'C09.R2'
  ctx.rule(R, 'the per-sample fold is 0.95*old + 0.05*new (first sample initialises)', floor=2)
  inl = defuse.Inliner(ctx.repo)
  f = ctx.repo.func(f'{CU}:moving_average_update')
  ctx.instance(R)
  old, new = f.pos_params[:2]
  d = f.param_default('smoothing_factor')
  val = None
  try:
    val = ctx.ev.eval(d, f.module, {}) if d is not None else None
  except Exception:  # pylint: disable=broad-except
    pass
  ctx.check(R, val == oracles.SMOOTHING, f.node, f, f'smoothing_factor default = {val}', f'the moving-average weight of the old value must be {oracles.SMOOTHING}, found {val}')
  ps = defuse.paths(f.node, keep=frozenset())
  rets = [p for p in ps if p.raises is None]
  first = [p for p in rets if any(defuse.norm(c) == old and not taken for c, taken in p.conds) or any(defuse.norm(c) == f'not {old}' and taken for c, taken in p.conds)]
  ctx.check(R, len(first) == 1 and defuse.norm(first[0].ret) == new, f.node, f, 'first sample', 'when there is no old statistic the new one must be returned unchanged')
  upd = [p for p in rets if p not in first]
  for p in upd:
    ret = p.ret
    # path-sensitive env holds updated_qsv["min"] assignments only via dict stores: read them from the source
  stores = {}
  for n in common.walk_no_nested(f.node):
    if isinstance(n, ast.Assign) and isinstance(n.targets[0], ast.Subscript) and isinstance(n.targets[0].slice, ast.Constant):
      stores[n.targets[0].slice.value] = inl.inline(f, n.value)
  for key in ('min', 'max'):
    e = stores.get(key)
    if not ctx.check(R, e is not None, f.node, f, f'updated["{key}"]', f'the {key} statistic is not updated'):
      continue
    want = f's * {old}["{key}"] + (1 - s) * {new}["{key}"]'
    ok = algebra.same(e, want, alias={'smoothing_factor': 's'})
    ctx.check(R, ok, f.node, f, f'updated["{key}"] = {defuse.norm(e)[:120]}',
              f'the fold of "{key}" is {defuse.norm(e)[:140]}; the reference is {want} with s the weight of the OLD value')
  # default update function of calibrate() and no override in Quantizer.calibrate
  cal = ctx.repo.func(f'{CAL}.calibrate')
  ctx.instance(R)
  dflt = cal.param_default('qsv_update_func')
  s = ctx.repo.resolve_expr(cal.module, dflt) if dflt is not None else None
  ctx.check(R, s is not None and s.kind == 'func' and s.obj.fq == f.fq, cal.node, cal, f'qsv_update_func default = {ast.unparse(dflt) if dflt is not None else None}',
            'calibrate() must fold with moving_average_update by default')
  q = ctx.repo.func('quantizer:Quantizer.calibrate')
  for c in common.calls_in(q.node):
    if common.call_name(c).endswith('.calibrate'):
      kws = [k.arg for k in c.keywords]
      ctx.check(R, 'qsv_update_func' not in kws and len(c.args) <= 3, c, q, c, 'Quantizer.calibrate overrides the fold function')
      args = [ast.unparse(a) for a in c.args]
      ctx.check(R, args[:1] == ['calibration_data'], c, q, c, 'the calibration data must be passed through unchanged (dataset order)')
  # the update is applied as f(old, new)
  u = ctx.repo.func(f'{CAL}._update_qsvs')
  calls = [c for c in common.calls_in(u.node) if isinstance(c.func, ast.Name) and c.func.id == 'qsv_update_func']
  inl0 = defuse.Inliner(ctx.repo, max_depth=0)
  ok = len(calls) == 1 and len(calls[0].args) == 2 and '_model_qsvs' in defuse.norm(inl0.inline(u, calls[0].args[0])) and '_model_qsvs' not in defuse.norm(inl0.inline(u, calls[0].args[1]))
  ctx.check(R, ok, u.node, u, calls[0] if calls else 'qsv_update_func(...)', 'the fold must be called as update(old statistic, new statistic)')


def r3_once_per_sample(ctx):
  R = 'C09.R3'
  ctx.rule(R, 'each tensor is folded at most once per sample, in dataset order', floor=2)
  cal = ctx.repo.func(f'{CAL}.calibrate')
  ctx.instance(R)
  g = cfgmod.build(cal.node)
  sample = [n for n in g.nodes if n.kind == 'for' and ast.unparse(n.ast.iter) == cal.pos_params[1]]
  if not ctx.check(R, len(sample) == 1, cal.node, cal, 'sample loop', 'calibrate() must iterate the dataset directly (no sorting / reversing / set())'):
    sample = [n for n in g.nodes if n.kind == 'for' and cal.pos_params[1] in ast.unparse(n.ast.iter)]
    if not sample:
      raise index.AnalysisError(f'{cal.fq}: no loop over the calibration dataset')
  head = sample[0]
  body = g.loop_body_nodes(head.id)
  sets = [n for n in body if isinstance(g.nodes[n].ast, ast.Assign) and isinstance(g.nodes[n].ast.value, ast.Call)
          and common.call_name(g.nodes[n].ast.value) == 'set' and not g.nodes[n].ast.value.args]
  ok = len(sets) == 1
  ctx.check(R, ok, head.ast, cal, 'updated = set() inside the sample loop',
            'the set of tensors already updated must be created fresh for every sample (hoisting it freezes every tensor after the first sample)')
  if ok:
    var = g.nodes[sets[0]].ast.targets[0].id
    # not inside the op loop
    inner = [n for n in body if g.nodes[n].kind == 'for']
    for l in inner:
      ctx.check(R, sets[0] not in g.loop_body_nodes(l), g.nodes[sets[0]].ast, cal, g.nodes[sets[0]].ast,
                'the de-duplication set is re-created inside the operator loop (a tensor shared by two ops is folded twice per sample)')
    upd = [c for c in common.calls_in(cal.node) if common.call_name(c).endswith('_update_qsvs')]
    ok2 = len(upd) == 1 and len(upd[0].args) >= 2 and ast.unparse(upd[0].args[1]) == var
    ctx.check(R, ok2, cal.node, cal, upd[0] if upd else '_update_qsvs', 'the per-sample set must be the ignore-list of every _update_qsvs call')
    st = common.stmt_of(cal.node, upd[0]) if upd else None
    res = st.targets[0].id if isinstance(st, ast.Assign) and isinstance(st.targets[0], ast.Name) else None
    ext = [c for c in common.calls_in(cal.node) if isinstance(c.func, ast.Attribute) and c.func.attr in ('update', 'add') and ast.unparse(c.func.value) == var]
    # (the result may be held in a local or passed on directly: `set.update(self._update_qsvs(...))`)
    direct = any(c.args and upd and any(x is upd[0] for x in ast.walk(c.args[0])) for c in ext)
    ctx.check(R, direct or (res is not None and any(ast.unparse(c.args[0]) == res for c in ext if c.args)), cal.node, cal, f'{var}.update(<result>)',
              'the names returned by _update_qsvs must be added to the per-sample set')
  u = ctx.repo.func(f'{CAL}._update_qsvs')
  ctx.instance(R)
  gu = cfgmod.build(u.node)
  loops = [n for n in gu.nodes if n.kind == 'for']
  if len(loops) == 1:
    b = gu.loop_body_nodes(loops[0].id)
    skip = [n for n in b if gu.nodes[n].kind == 'if' and ' in ' in ast.unparse(gu.nodes[n].ast.test) and u.pos_params[2] in ast.unparse(gu.nodes[n].ast.test)]
    derived = {name for name, vals in defuse.own_assignments(u.node).items() if any(v is not None and '_model_qsvs' in ast.unparse(v) for v in vals)}
    stores = [n for n in b if any(isinstance(x, ast.Subscript) and isinstance(x.ctx, ast.Store) and '_model_qsvs' in ast.unparse(x) for x in gu.nodes[n].walk())
              or any(isinstance(c.func, ast.Attribute) and c.func.attr in ('update',) and isinstance(c.func.value, ast.Name) and c.func.value.id in derived for c in gu.nodes[n].calls())]
    ok3 = len(skip) == 1 and all(gu.every_path_passes(loops[0].id, s, {skip[0]}) for s in stores) and bool(stores)
    ctx.check(R, ok3, u.node, u, 'ignored names are skipped before any store', 'ignored tensor names must be skipped before the statistics are touched')
    adds = [n for n in b if any(isinstance(c.func, ast.Attribute) and c.func.attr == 'add' for c in gu.nodes[n].calls())]
    mn, mx = gu.iteration_count(loops[0].id, set(stores))
    ctx.check(R, mx == 1, u.node, u, 'one store per tensor', 'a tensor is stored more than once per update')
    for s in stores:
      ok4 = any(a in gu.reachable([s], blocked={loops[0].id}) for a in adds)
      ctx.check(R, ok4, gu.nodes[s].ast, u, gu.nodes[s].ast, 'a stored tensor is not reported as updated (it would be folded again by the next op of the same sample)')
    # first sample initialises: absent name -> stored unchanged
    ini = [gu.nodes[s].ast for s in stores if (isinstance(gu.nodes[s].ast, ast.Assign) and isinstance(gu.nodes[s].ast.value, ast.Name))
           or (isinstance(gu.nodes[s].ast, ast.Expr) and isinstance(gu.nodes[s].ast.value, ast.Call) and getattr(gu.nodes[s].ast.value.func, 'attr', '') == 'update')]
    ctx.check(R, len(ini) >= 1, u.node, u, 'first sample', 'a tensor seen for the first time must be stored unchanged')
  else:
    ctx.check(R, False, u.node, u, '_update_qsvs shape', '_update_qsvs is expected to be a single loop over the op statistics')


def _slot_defs(ctx):
  """(func, key, value expr) for every definition of a "min"/"max" statistics slot."""
  out = []
  mods = [shared.MMU, shared.NMM, CU, 'calibrator']
  for short in mods:
    m = ctx.repo.mod(short)
    for f in m.functions.values():
      for n in common.walk_no_nested(f.node):
        if isinstance(n, ast.Dict):
          for k, v in zip(n.keys, n.values):
            if isinstance(k, ast.Constant) and k.value in ('min', 'max'):
              out.append((f, k.value, v, n))
        if isinstance(n, ast.Assign):
          for t in n.targets:
            if isinstance(t, ast.Subscript) and isinstance(t.slice, ast.Constant) and t.slice.value in ('min', 'max'):
              out.append((f, t.slice.value, n.value, n))
  return out


def r4_min_max_coherence(ctx):
  R = 'C09.R4'
  ctx.rule(R, 'a "min" slot is never computed from max-flavoured values and vice versa', floor=10)
  inl = defuse.Inliner(ctx.repo, max_depth=0)
  for f, key, val, node in _slot_defs(ctx):
    ctx.instance(R)
    other = 'max' if key == 'min' else 'min'
    bad_funcs = MAXISH if key == 'min' else MINISH
    full = inl.inline(f, val)
    problems = []
    for x in ast.walk(full):
      if isinstance(x, ast.Call):
        nm = common.call_name(x).split('.')[-1]
        if nm in bad_funcs:
          problems.append(f'calls {common.call_name(x)}')
      if isinstance(x, ast.Subscript) and isinstance(x.slice, ast.Constant) and x.slice.value == other:
        problems.append(f'reads the "{other}" slot')
      if isinstance(x, ast.Name) and other in x.id.lower().split('_') and key not in x.id.lower():
        problems.append(f'uses {x.id}')
    ctx.check(R, not problems, node, f, f'"{key}": {defuse.norm(val)[:80]}', f'the "{key}" statistic {", ".join(problems)} (min/max cross-wired)')
  # the reductions of the recorded statistics are over the whole tensor / the non-quantized axes
  mc = ctx.repo.func(f'{shared.NMM}:min_max_calibrate')
  cmap = mc.pos_params[2]
  seen = 0
  for f in [mc] + [x for x in mc.module.functions.values() if x.parent is mc]:
    for n in common.walk_no_nested(f.node):
      if not (isinstance(n, ast.Assign) and isinstance(n.targets[0], ast.Subscript) and isinstance(n.value, ast.Dict)):
        continue
      slots = {k.value: v for k, v in zip(n.value.keys, n.value.values) if isinstance(k, ast.Constant)}
      if set(slots) != {'min', 'max'}:
        continue
      seen += 1
      key = defuse.norm(inl.inline(f, n.targets[0].slice)).replace('tfl_flatbuffer_utils.', '')
      for slot, fn in (('min', 'np.min'), ('max', 'np.max')):
        v = inl.inline(f, slots[slot])
        ok = isinstance(v, ast.Call) and common.call_name(v) == fn and len(v.args) == 1 and \
            any(k.arg == 'axis' and isinstance(k.value, ast.Constant) and k.value.value is None for k in v.keywords)
        ctx.check(R, ok, n, f, slots[slot], 'runtime tensor statistics must be the min and max over the whole tensor content')
        if ok:
          content = defuse.norm(v.args[0]).replace('tfl_flatbuffer_utils.', '')
          ctx.check(R, content == f'{cmap}[{key}]' and key.startswith('get_tensor_name('), n, f, f'{slot}: content {content} filed under {key}',
                    'the content must be looked up by the name of the very tensor the statistic is filed under')
  ctx.check(R, seen == 1, mc.node, mc, 'runtime statistics', 'cannot find the {"min","max"} record of min_max_calibrate')


def r6_update_purity(ctx):
  R = 'C09.R6'
  ctx.rule(R, 'update functions do not mutate their arguments', floor=2)
  eff = effects.get(ctx)
  for name in ('moving_average_update', 'min_max_update', '_update_moving_average'):
    f = ctx.repo.func(f'{CU}:{name}')
    ctx.instance(R)
    s = eff.summary(f.fq)
    ctx.check(R, not s.mut, f.node, f, f'{name} effects', f'{name} mutates {sorted(effects.fmt_path(*k) for k in s.mut)}: the old statistic object is shared with the previous result')


def r7_preserve_and_reset(ctx):
  R = 'C09.R7'
  ctx.rule(R, 'intermediate tensors are preserved by the interpreter; variables are reset per sample', floor=1)
  f = ctx.repo.func('utils.tfl_interpreter_utils:create_tfl_interpreter')
  ctx.instance(R)
  ctor = [c for c in common.calls_in(f.node) if common.call_name(c).endswith('Interpreter')]
  ok = False
  for c in ctor:
    for k in c.keywords:
      if k.arg == 'experimental_preserve_all_tensors' and isinstance(k.value, ast.Constant) and k.value.value is True:
        ok = True
  ctx.check(R, ok, f.node, f, 'experimental_preserve_all_tensors=True',
            'without preserve_all_tensors the recorded min/max of intermediates are those of reused arena memory')
  init = ctx.repo.func(f'{CAL}.__init__')
  ctx.check(R, any(common.call_name(c).endswith('create_tfl_interpreter') for c in common.calls_in(init.node)), init.node, init, 'interpreter construction', 'Calibrator must build its interpreter with create_tfl_interpreter')


def r8_resume_equivalence(ctx):
  R = 'C09.R8'
  ctx.rule(R, 'a resumed session walks the same operators as a fresh one', floor=1)
  cal = ctx.repo.func(f'{CAL}.calibrate')
  ctx.instance(R)
  g = cfgmod.build(cal.node)
  cg = callgraph.get(ctx)
  # calls made only on the not-resumed path (guarded by the emptiness of the statistics)
  guards = [n for n in g.nodes if n.kind == 'if' and '_model_qsvs' in ast.unparse(n.ast.test)]
  if not ctx.check(R, len(guards) == 1, cal.node, cal, 'initialisation guard', 'calibrate() must initialise statistics only when none are loaded'):
    return
  guard = guards[0]
  only_fresh = []
  # the arm taken when no statistics are loaded: the body of `if not <stats>`, the else arm of `if <stats>`
  t = guard.ast.test
  fresh_arm = guard.ast.body if isinstance(t, ast.UnaryOp) and isinstance(t.op, ast.Not) else guard.ast.orelse
  for st in fresh_arm:
    for c in common.calls_in(st):
      for s in cg.sites.get(cal.fq, []):
        if s.node is c:
          only_fresh += s.callees
  eff = effects.get(ctx)
  for callee in only_fresh:
    s = eff.summary(callee.fq)
    bad = [(k, w) for k, w in s.mut.items() if k[0] == 'p:self' and k[1][:1] != ('_model_qsvs',)]
    for (root, path), w in bad:
      ctx.check(R, False, w.where, callee, f'{effects.fmt_path(root, path)}',
                f'{callee.name}() runs only when calibration is NOT resumed but also changes {effects.fmt_path(root, path)} ({w.text}); '
                'a resumed session then walks different operators / state than a fresh one', path=w.steps())
    if not bad:
      ctx.check(R, True, callee.node, callee, callee.name, '')
  # both per-call loops see the virtual IO operators (shared with C10.R2)


def r11_calibration_numeric(ctx, R='C09.R11'):
  """Calibration run numerically on a label model with the exact array model:
  Calibrator.calibrate, _initialize_model_qsvs, _update_qsvs, the registered
  init / calibrate functions and the default update function are the
  repository's; only the interpreter (tensor contents per sample) is a
  stand-in. Oracle: runtime tensors end at the moving average (0.95 / 0.05,
  first sample initialises) of their true per-sample min / max in dataset
  order, constants at their true min / max; D1 then D2 from the returned
  result equals one pass over D1 + D2; the result passed in is not modified."""
  import copy as _copy  # pylint: disable=g-import-not-at-top
  import fractions  # pylint: disable=g-import-not-at-top
  from sa import absint, consteval  # pylint: disable=g-import-not-at-top
  from sa.consteval import Ext, Ref  # pylint: disable=g-import-not-at-top
  from sa.ndarr import NdArr  # pylint: disable=g-import-not-at-top
  from sa.rules import c11  # pylint: disable=g-import-not-at-top
  rs = ctx.rule(R, 'calibration, numerically (stateful stand-in model): moving average of the true per-sample min/max in dataset order, every sample from the initial state, constants exact, D1 then D2 == D1+D2, previous result untouched', floor=1)
  cal = ctx.repo.func(f'{CAL}.calibrate')
  load = ctx.repo.func(f'{CAL}.load_model_qsvs')
  getq = ctx.repo.func(f'{CAL}.get_model_qsvs')
  ctx.instance(R)
  BO = consteval.schema_enum('BuiltinOperator')
  code = lambda n: Ext(f'BuiltinOperator.{n}', BO[n])
  OP, ALG, drq, srq, bad = c11._domain(ctx)  # pylint: disable=protected-access
  MM = ALG['MIN_MAX_UNIFORM_QUANT']
  reg = tables.registry(ctx)
  weights = NdArr((2, 3), [5, -7, 2, 0, 9, -1])

  def model():
    names = ['x', 'w', 'h', 'y', 'xi', 'perm', 'yi']
    tensors = [Obj('x:TensorT', {'name': n.encode(), 'buffer': 1 if n == 'w' else (2 if n == 'perm' else 0), 'type': 2 if n in ('xi', 'perm', 'yi') else 0, 'shape': [2, 3] if n == 'w' else [1, 2]}) for n in names]
    ops = [Obj('x:OperatorT', {'label': 'fc', 'opcodeIndex': 0, 'inputs': [0, 1], 'outputs': [2], 'builtinOptions': None}),
           Obj('x:OperatorT', {'label': 'fc2', 'opcodeIndex': 0, 'inputs': [2, 1], 'outputs': [3], 'builtinOptions': None}),   # h is an output of fc AND an input of fc2
           Obj('x:OperatorT', {'label': 'tr', 'opcodeIndex': 1, 'inputs': [4, 5], 'outputs': [6], 'builtinOptions': None})]     # an integer-typed runtime path (int32 TRANSPOSE)
    sg = Obj('x:SubGraphT', {'tensors': tensors, 'operators': ops, 'inputs': [0, 4], 'outputs': [3, 6], 'name': b'main'})
    return Obj('x:ModelT', {'subgraphs': [sg], 'buffers': [Obj('x:BufferT', {'data': None}), Obj('x:BufferT', {'data': 'W'}), Obj('x:BufferT', {'data': 'PERM'})],
                            'operatorCodes': [Obj('x:OperatorCodeT', {'builtinCode': code('FULLY_CONNECTED')}), Obj('x:OperatorCodeT', {'builtinCode': code('TRANSPOSE')})]})

  def sample(k):   # contents of the runtime tensors for sample k: distinct ranges per tensor and sample
    return {'x': NdArr((1, 2), [k, -2 * k], 'f'), 'h': NdArr((1, 2), [10 - 3 * k, k * k], 'f'), 'y': NdArr((1, 2), [-k - 1, 4 - k], 'f'),
            'xi': NdArr((1, 2), [3 * k, -k], 'i'), 'yi': NdArr((1, 2), [7 - k, 2 * k], 'i')}
  current = {}

  def lookup(alg, op, what):
    try:
      return Ref('func', reg[alg][op][what].fq)
    except (KeyError, TypeError):
      raise index.AnalysisError(f'{R}: registry lookup with an undecided key ({alg!r}, {op!r})')

  # The stand-in model is STATEFUL (a variable tensor, e.g. a recurrent hidden state): what an invocation leaves behind
  # shifts the contents of `h` and `y` in the next one unless the interpreter's variables are reset in between. The true
  # per-sample min / max of the property are those of a model that starts every sample from its initial state.
  state = {'carry': 0}

  def invoke(a, k):
    current.clear()
    smp = sample(a[1]['k'])
    if state['carry']:
      for n_ in ('h', 'y'):
        smp[n_] = NdArr(smp[n_].shape, [v + 100 * state['carry'] for v in smp[n_].data], 'f')
    current.update(smp)
    state['carry'] += 1
    return {}

  def reset(a, k, kind=None):
    state['carry'] = 0
    return None
  hooks = {
      c11.CHECK_FQ: (lambda a, k: c11._mk_interp(ctx).hooks[c11.CHECK_FQ](a, k)),  # pylint: disable=protected-access
      'algorithm_manager.get_init_qsv_func': lambda a, k: lookup(a[0], a[1], 'init'),
      'algorithm_manager.get_quantization_func': lambda a, k: lookup(a[0], a[1], 'calibrate' if getattr(a[2], 'name', '') == 'CALIBRATE' else 'materialize'),
      'tfl_interpreter_utils.invoke_interpreter_signature': invoke,
      'tfl_interpreter_utils.get_signature_main_subgraph_index': lambda a, k: 0,
      'tfl_interpreter_utils.get_tensor_name_to_content_map': lambda a, k: dict(current),
      'tfl_flatbuffer_utils.get_tensor_data': lambda a, k: (weights if a[0].fields.get('buffer') == 1 else (NdArr((2,), [1, 0], 'i') if a[0].fields.get('buffer') == 2 else None)),
  }
  store = {'.*': [c11._recipe('.*', OP['ALL_SUPPORTED'], MM, srq)]}  # pylint: disable=protected-access

  def new_cal(it):
    return Obj(CAL, {'_flatbuffer_model': model(), '_tfl_interpreter': Obj('x:Interpreter', {'reset_all_variables': shared._StandIn(reset, 'r')}),  # pylint: disable=protected-access
                     '_tensor_content_map': {}, '_model_qsvs': {}, '_cached_output': []})

  def run(it, calo, ks, scoped=None):
    state['carry'] = 0   # a new interpreter starts from the initial state
    rm = Obj('recipe_manager:RecipeManager', {'_scope_configs': scoped or store})
    o = it.outcomes(cal, [calo, [{'k': k} for k in ks], rm, 'sig'], copy_args=False)
    return len(o) == 1 and o[0].kind == 'return', o

  def num(v):
    if isinstance(v, NdArr) and v.size == 1:
      return fractions.Fraction(v.data[0])
    return fractions.Fraction(v)

  def expected(ks):
    out = {}
    for name in ('x', 'h', 'y', 'xi', 'yi'):
      mn = mx = None
      for k in ks:
        d = sample(k)[name].data
        a, b = fractions.Fraction(min(d)), fractions.Fraction(max(d))
        mn = a if mn is None else fractions.Fraction(95, 100) * mn + fractions.Fraction(5, 100) * a
        mx = b if mx is None else fractions.Fraction(95, 100) * mx + fractions.Fraction(5, 100) * b
      out[name] = (mn, mx)
    return out
  rs.exhaustive = True
  for ks in ([1], [1, 2], [3, 1, 2], [2, 2, 5, 1]):
    it = absint.Interp(ctx.repo, ctx.ev, hooks=hooks)
    calo = new_cal(it)
    ok, o = run(it, calo, ks)
    label = f'samples {ks}'
    if not ok:
      ctx.check(R, False, cal.node, cal, label, f'not decided: {[x.short()[:120] for x in o]}')
      continue
    qs = calo.fields['_model_qsvs']
    want = expected(ks)
    for name, (mn, mx) in want.items():
      e = qs.get(name)
      good = isinstance(e, dict) and 'min' in e and 'max' in e and abs(num(e['min']) - mn) <= fractions.Fraction(1, 10 ** 9) and abs(num(e['max']) - mx) <= fractions.Fraction(1, 10 ** 9)
      got = (float(num(e['min'])), float(num(e['max']))) if isinstance(e, dict) and 'min' in e else e
      ctx.check(R, good, cal.node, cal, f'{label}: {name} -> {got}', f'statistics of {name} must be the moving average of its per-sample min/max in dataset order: ({float(mn):.6g}, {float(mx):.6g})')
    ew = qs.get('w')
    ctx.check(R, isinstance(ew, dict) and isinstance(ew.get('min'), NdArr) and sorted(ew['min'].data) == [-7] and sorted(ew['max'].data) == [9] or
              (isinstance(ew, dict) and isinstance(ew.get('min'), NdArr) and ew['min'].size == 2 and ew['min'].data == [-7, -1] and ew['max'].data == [5, 9]),
              cal.node, cal, f'{label}: constant w -> {ew!r}', 'a constant keeps its true min/max (per tensor, or per channel for channel-wise weights), whatever the samples')
  # a recipe that selects ONE of two operators of the same type (by the name of its output): that operator's tensors are
  # calibrated, the other operator's own tensors are not - the verdict of one operator says nothing about the next
  it = absint.Interp(ctx.repo, ctx.ev, hooks=hooks)
  calo = new_cal(it)
  ok, o = run(it, calo, [1, 2], scoped={'y;': [c11._recipe('y;', OP['FULLY_CONNECTED'], MM, srq)]})  # pylint: disable=protected-access
  if not ok:
    ctx.check(R, False, cal.node, cal, 'scoped recipe', f'not decided: {[x.short()[:120] for x in o]}')
  else:
    qs = calo.fields['_model_qsvs']
    want = expected([1, 2])
    for name in ('h', 'y'):
      e = qs.get(name)
      mn, mx = want[name]
      good = isinstance(e, dict) and 'min' in e and abs(num(e['min']) - mn) <= fractions.Fraction(1, 10 ** 9) and abs(num(e['max']) - mx) <= fractions.Fraction(1, 10 ** 9)
      ctx.check(R, good, cal.node, cal, f'recipe for the operator producing y only: {name} -> {e!r}'[:160], f'the selected operator (the second FULLY_CONNECTED) must be calibrated: {name} needs the statistics ({float(mn):.6g}, {float(mx):.6g})')
    ctx.check(R, not qs.get('x'), cal.node, cal, f'recipe for the operator producing y only: x -> {qs.get("x")!r}'[:160], 'the first FULLY_CONNECTED is not selected: its input must not be calibrated')
  # D1 then D2 from the returned result == one pass over D1 + D2; the result passed in is untouched
  it = absint.Interp(ctx.repo, ctx.ev, hooks=hooks)
  a = new_cal(it)
  ok1, _ = run(it, a, [3, 1])
  first = a.fields['_model_qsvs']
  snapshot = _copy.deepcopy(first)
  b = new_cal(it)
  it.outcomes(load, [b, first], copy_args=False)
  ok2, _ = run(it, b, [2, 4])
  c = new_cal(it)
  ok3, _ = run(it, c, [3, 1, 2, 4])
  if ok1 and ok2 and ok3:
    qb, qc = b.fields['_model_qsvs'], c.fields['_model_qsvs']
    same = set(qb) == set(qc) and all(abs(num(qb[n][s]) - num(qc[n][s])) <= fractions.Fraction(1, 10 ** 9) for n in ('x', 'h', 'y', 'xi', 'yi') for s in ('min', 'max'))
    ctx.check(R, same, cal.node, cal, 'D1=[3,1] then D2=[2,4] from the returned result vs one pass over [3,1,2,4]',
              f'resumed calibration gives {({n: (float(num(qb[n]["min"])), float(num(qb[n]["max"]))) for n in ("x", "h", "y", "xi", "yi")})}, one pass gives '
              f'{({n: (float(num(qc[n]["min"])), float(num(qc[n]["max"]))) for n in ("x", "h", "y", "xi", "yi")})}')
    unchanged = set(first) == set(snapshot) and all(first[n] == snapshot[n] or (isinstance(first[n], dict) and all(num(first[n][s]) == num(snapshot[n][s]) for s in first[n] if not isinstance(first[n][s], NdArr) or first[n][s].size == 1)) for n in first)
    ctx.check(R, unchanged, load.node, load, 'previous result after resuming', 'the calibration result that was passed in has been modified by the resumed calibration')
  else:
    ctx.check(R, False, cal.node, cal, 'resume scenario', 'not decided')


def run(ctx):
  ctx.assume('np.min / np.max / np.minimum / np.maximum have their numpy meaning')
  r1_copy_barrier(ctx)
  r2_fold(ctx)
  r3_once_per_sample(ctx)
  r4_min_max_coherence(ctx)
  r6_update_purity(ctx)
  r7_preserve_and_reset(ctx)
  r8_resume_equivalence(ctx)
  shared.rule_single_traversal(ctx, 'C09.R9', ['quantizer:Quantizer.calibrate', 'calibrator:Calibrator.calibrate'])
  # every selected operator is calibrated on every sample: the operator loop asks the recipe once per operator, with that operator's own scope (C10.R2)
  r11_calibration_numeric(ctx)
  c10.r9_signature_subgraph_table(ctx, 'C09.R12')
  # resumable over signatures: the first pass initialises the constants of every operator that will be quantized, also
  # those of another signature's subgraph, so that a run continued from the returned result has them (round 19)
  c10.r7_selection_simulation(ctx, 'C09.R13')
  from sa.rules import c10, c19  # pylint: disable=g-import-not-at-top
  c19._relabel(ctx, 'C10.R2', 'C09.R10', 'every operator of every sample is looked up in the recipe with its own scope - no per-type or per-round shortcut (C10.R2)', c10.r2_one_protocol)
