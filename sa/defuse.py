"""E7 - def-use, origin (single-definition inlining) and normalisation."""
from __future__ import annotations

import ast
import copy
from typing import Optional

from sa import index
from sa.rules import common


def own_assignments(func_node: ast.AST) -> dict[str, list[ast.AST]]:
  """name -> list of value expressions assigned to it in this function body
  (loop targets / with targets / aug-assign recorded as `None` = opaque def)."""
  out: dict[str, list] = {}

  def targets(t, val):
    if isinstance(t, ast.Name):
      out.setdefault(t.id, []).append(val)
    elif isinstance(t, (ast.Tuple, ast.List)):
      for i, e in enumerate(t.elts):
        sub = None
        if isinstance(val, (ast.Tuple, ast.List)) and len(val.elts) == len(t.elts):
          sub = val.elts[i]
        elif val is not None:
          sub = ast.Subscript(value=val, slice=ast.Constant(value=i), ctx=ast.Load())
        targets(e, sub)

  for n in common.walk_no_nested(func_node):
    if isinstance(n, ast.Assign):
      for t in n.targets:
        targets(t, n.value)
    elif isinstance(n, ast.AnnAssign) and n.value is not None:
      targets(n.target, n.value)
    elif isinstance(n, ast.AugAssign):
      targets(n.target, None)
    elif isinstance(n, (ast.For, ast.comprehension)):
      targets(n.target, None)
    elif isinstance(n, ast.With):
      for it in n.items:
        if it.optional_vars is not None:
          targets(it.optional_vars, None)
    elif isinstance(n, ast.NamedExpr):
      targets(n.target, n.value)
  return out


class Inliner:
  """Replaces single-definition locals and simple repository helpers."""

  def __init__(self, repo: index.Repo, cg=None, max_depth: int = 6):
    self.repo = repo
    self.cg = cg
    self.max_depth = max_depth

  def inline(self, func: index.FuncInfo, expr: ast.AST, depth: int = 0,
             subst: Optional[dict[str, ast.AST]] = None) -> ast.AST:
    defs = own_assignments(func.node)
    params = {p.lstrip('*') for p in func.params}
    subst = subst or {}

    def rec(e, d, seen):
      if isinstance(e, ast.Name) and isinstance(e.ctx, ast.Load):
        if e.id in subst:
          return subst[e.id]
        if e.id in params:
          return e
        vals = defs.get(e.id)
        if vals and len(vals) == 1 and vals[0] is not None and e.id not in seen and d < 40:
          return rec(copy.deepcopy(vals[0]), d + 1, seen | {e.id})
        return e
      if isinstance(e, ast.Call):
        new = copy.copy(e)
        new.args = [rec(a, d, seen) for a in e.args]
        new.keywords = [ast.keyword(arg=k.arg, value=rec(k.value, d, seen)) for k in e.keywords]
        new.func = rec(e.func, d, seen) if not isinstance(e.func, ast.Name) else e.func
        inl = self._inline_call(func, e, new, depth)
        return inl if inl is not None else new
      if isinstance(e, ast.AST):
        new = copy.copy(e)
        for field, val in ast.iter_fields(e):
          if isinstance(val, list):
            setattr(new, field, [rec(x, d, seen) if isinstance(x, ast.AST) else x for x in val])
          elif isinstance(val, ast.AST):
            setattr(new, field, rec(val, d, seen))
        return new
      return e

    return rec(copy.deepcopy(expr), 0, frozenset())

  def _inline_call(self, caller: index.FuncInfo, orig: ast.Call, new: ast.Call,
                   depth: int) -> Optional[ast.AST]:
    if depth >= self.max_depth:
      return None
    s = self.repo.resolve_expr(caller.module, orig.func) if isinstance(orig.func, (ast.Name, ast.Attribute)) else None
    if s is None or s.kind != 'func':
      return None
    callee: index.FuncInfo = s.obj
    if callee.fq == caller.fq:
      return None
    rets = [n for n in common.walk_no_nested(callee.node) if isinstance(n, ast.Return) and n.value is not None]
    if len(rets) != 1:
      return None
    # body must be straight-line assignments (+ docstring) before the return
    for st in callee.node.body:
      if isinstance(st, (ast.Assign, ast.AnnAssign, ast.Return)):
        continue
      if isinstance(st, ast.Expr) and isinstance(st.value, ast.Constant):
        continue
      return None
    binding: dict[str, ast.AST] = {}
    pos = callee.pos_params
    for p, a in zip(pos, new.args):
      binding[p] = a
    for k in new.keywords:
      if k.arg:
        binding[k.arg] = k.value
    for p in callee.params:
      name = p.lstrip('*')
      if name not in binding:
        d = callee.param_default(name)
        if d is not None:
          binding[name] = d
    return self.inline(callee, rets[0].value, depth + 1, subst=binding)


def norm(node: ast.AST) -> str:
  """Normal form for sibling comparison: unparse with whitespace collapsed."""
  try:
    return ' '.join(ast.unparse(node).split())
  except Exception:  # pylint: disable=broad-except
    return ast.dump(node)


def names_in(node: ast.AST) -> set[str]:
  return {n.id for n in ast.walk(node) if isinstance(n, ast.Name)}


def attr_chains_in(node: ast.AST) -> set[str]:
  out = set()
  for n in ast.walk(node):
    if isinstance(n, (ast.Attribute, ast.Name)):
      try:
        out.add(ast.unparse(n))
      except Exception:  # pylint: disable=broad-except
        pass
  return out


def calls_named(node: ast.AST, suffixes) -> list[ast.Call]:
  if isinstance(suffixes, str):
    suffixes = (suffixes,)
  out = []
  for n in ast.walk(node):
    if isinstance(n, ast.Call):
      name = common.call_name(n)
      if any(name == s or name.endswith('.' + s) for s in suffixes):
        out.append(n)
  return out


# ---------------------------------------------------------------------------
# Path-sensitive substitution (structured: If / straight-line; no loops)
# ---------------------------------------------------------------------------
class Path:

  def __init__(self):
    self.conds: list[tuple[ast.AST, bool]] = []
    self.env: dict[str, ast.AST] = {}
    self.ret: Optional[ast.AST] = None
    self.raises: Optional[ast.Raise] = None
    self.calls: list[ast.Call] = []  # expression statements (calls) in order

  def clone(self):
    p = Path()
    p.conds = list(self.conds)
    p.env = dict(self.env)
    p.calls = list(self.calls)
    return p

  def cond_text(self) -> str:
    return ' and '.join(('' if t else 'not ') + '(' + norm(c) + ')' for c, t in self.conds) or 'True'


def subst(expr: ast.AST, env: dict[str, ast.AST]) -> ast.AST:
  class T(ast.NodeTransformer):
    def visit_Name(self, n):  # pylint: disable=invalid-name
      if isinstance(n.ctx, ast.Load) and n.id in env:
        return copy.deepcopy(env[n.id])
      return n
  return T().visit(copy.deepcopy(expr))


def simplify(expr: ast.AST) -> ast.AST:
  """Folds `<Ctor>(..., k=C).k` to C and `not True/False`."""
  class T(ast.NodeTransformer):
    def visit_Attribute(self, n):  # pylint: disable=invalid-name
      self.generic_visit(n)
      if isinstance(n.value, ast.Call):
        for k in n.value.keywords:
          if k.arg == n.attr:
            return k.value
      return n

    def visit_UnaryOp(self, n):  # pylint: disable=invalid-name
      self.generic_visit(n)
      if isinstance(n.op, ast.Not) and isinstance(n.operand, ast.Constant) and isinstance(n.operand.value, bool):
        return ast.Constant(value=not n.operand.value)
      return n
  return T().visit(copy.deepcopy(expr))


def paths(func_node: ast.FunctionDef, keep: frozenset = frozenset(),
          max_paths: int = 256) -> list[Path]:
  """All structured paths with variables substituted by their definitions.

  Names in `keep` are not substituted (stay symbolic). Loops and try blocks
  are treated as opaque statements that kill the variables they assign.
  """
  done: list[Path] = []

  def assign_names(t):
    if isinstance(t, ast.Name):
      return [t.id]
    if isinstance(t, (ast.Tuple, ast.List)):
      out = []
      for e in t.elts:
        out += assign_names(e)
      return out
    return []

  def run(body, p: Path) -> list[Path]:
    live = [p]
    for st in body:
      nxt = []
      for q in live:
        if isinstance(st, (ast.Assign, ast.AnnAssign)):
          val = st.value
          tgts = st.targets if isinstance(st, ast.Assign) else [st.target]
          if val is not None:
            v = simplify(subst(val, q.env))
            for t in tgts:
              if isinstance(t, ast.Name):
                if t.id not in keep:
                  q.env[t.id] = v
              elif isinstance(t, (ast.Tuple, ast.List)):
                for i, e in enumerate(t.elts):
                  if isinstance(e, ast.Name) and e.id not in keep:
                    if isinstance(v, (ast.Tuple, ast.List)) and len(v.elts) == len(t.elts):
                      q.env[e.id] = v.elts[i]
                    else:
                      q.env[e.id] = ast.Subscript(value=v, slice=ast.Constant(value=i), ctx=ast.Load())
          nxt.append(q)
        elif isinstance(st, ast.AugAssign):
          if isinstance(st.target, ast.Name) and st.target.id not in keep:
            cur = q.env.get(st.target.id, ast.Name(id=st.target.id, ctx=ast.Load()))
            q.env[st.target.id] = ast.BinOp(left=cur, op=st.op, right=simplify(subst(st.value, q.env)))
          nxt.append(q)
        elif isinstance(st, ast.Return):
          q.ret = simplify(subst(st.value, q.env)) if st.value is not None else ast.Constant(value=None)
          done.append(q)
        elif isinstance(st, ast.Raise):
          q.raises = st
          done.append(q)
        elif isinstance(st, ast.If):
          test = simplify(subst(st.test, q.env))
          if isinstance(test, ast.Constant) and isinstance(test.value, bool):
            branches = [(st.body if test.value else st.orelse, None)]
          else:
            branches = [(st.body, True), (st.orelse, False)]
          for body2, taken in branches:
            r = q.clone()
            if taken is not None:
              r.conds.append((test, taken))
            nxt += run(body2, r)
          if len(nxt) + len(done) > max_paths:
            raise index.AnalysisError('too many paths')
        elif isinstance(st, ast.Expr):
          if isinstance(st.value, ast.Call):
            q.calls.append(simplify(subst(st.value, q.env)))
          nxt.append(q)
        elif isinstance(st, (ast.For, ast.While, ast.Try, ast.With)):
          for sub in ast.walk(st):
            if isinstance(sub, (ast.Assign, ast.AugAssign, ast.AnnAssign, ast.For)):
              tg = sub.targets if isinstance(sub, ast.Assign) else [sub.target]
              for t in tg:
                for n in assign_names(t):
                  q.env[n] = ast.Name(id=f'<{n}@L{st.lineno}>', ctx=ast.Load())
          nxt.append(q)
        else:
          nxt.append(q)
      live = nxt
    return live

  rest = run(func_node.body, Path())
  for q in rest:
    q.ret = ast.Constant(value=None)
    done.append(q)
  return done
