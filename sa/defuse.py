"""E7 - def-use, origin (single-definition inlining) and normalisation."""
from __future__ import annotations

import ast
import copy
from typing import Optional

from sa import index
from sa.rules import common


def own_assignments(func_node: ast.AST) -> dict[str, list[ast.AST]]:
  """name -> list of value expressions assigned to it in this function body
  (loop targets / with targets / aug-assign recorded as `None` = opaque def)."""
  out: dict[str, list] = {}

  def targets(t, val):
    if isinstance(t, ast.Name):
      out.setdefault(t.id, []).append(val)
    elif isinstance(t, (ast.Tuple, ast.List)):
      for i, e in enumerate(t.elts):
        sub = None
        if isinstance(val, (ast.Tuple, ast.List)) and len(val.elts) == len(t.elts):
          sub = val.elts[i]
        elif val is not None:
          sub = ast.Subscript(value=val, slice=ast.Constant(value=i), ctx=ast.Load())
        targets(e, sub)

  for n in common.walk_no_nested(func_node):
    if isinstance(n, ast.Assign):
      for t in n.targets:
        targets(t, n.value)
    elif isinstance(n, ast.AnnAssign) and n.value is not None:
      targets(n.target, n.value)
    elif isinstance(n, ast.AugAssign):
      targets(n.target, None)
    elif isinstance(n, (ast.For, ast.comprehension)):
      targets(n.target, None)
    elif isinstance(n, ast.With):
      for it in n.items:
        if it.optional_vars is not None:
          targets(it.optional_vars, None)
    elif isinstance(n, ast.NamedExpr):
      targets(n.target, n.value)
  return out


class Inliner:
  """Replaces single-definition locals and simple repository helpers."""

  def __init__(self, repo: index.Repo, cg=None, max_depth: int = 6):
    self.repo = repo
    self.cg = cg
    self.max_depth = max_depth

  def inline(self, func: index.FuncInfo, expr: ast.AST, depth: int = 0,
             subst: Optional[dict[str, ast.AST]] = None) -> ast.AST:
    defs = own_assignments(func.node)
    params = {p.lstrip('*') for p in func.params}
    subst = subst or {}

    def rec(e, d, seen):
      if isinstance(e, ast.Name) and isinstance(e.ctx, ast.Load):
        if e.id in subst:
          return subst[e.id]
        if e.id in params:
          return e
        vals = defs.get(e.id)
        if vals and len(vals) == 1 and vals[0] is not None and e.id not in seen and d < 40:
          return rec(copy.deepcopy(vals[0]), d + 1, seen | {e.id})
        return e
      if isinstance(e, ast.Call):
        new = copy.copy(e)
        new.args = [rec(a, d, seen) for a in e.args]
        new.keywords = [ast.keyword(arg=k.arg, value=rec(k.value, d, seen)) for k in e.keywords]
        new.func = rec(e.func, d, seen) if not isinstance(e.func, ast.Name) else e.func
        inl = self._inline_call(func, e, new, depth)
        return inl if inl is not None else new
      if isinstance(e, ast.AST):
        new = copy.copy(e)
        for field, val in ast.iter_fields(e):
          if isinstance(val, list):
            setattr(new, field, [rec(x, d, seen) if isinstance(x, ast.AST) else x for x in val])
          elif isinstance(val, ast.AST):
            setattr(new, field, rec(val, d, seen))
        return new
      return e

    return rec(copy.deepcopy(expr), 0, frozenset())

  def _inline_call(self, caller: index.FuncInfo, orig: ast.Call, new: ast.Call,
                   depth: int) -> Optional[ast.AST]:
    if depth >= self.max_depth:
      return None
    s = self.repo.resolve_expr(caller.module, orig.func) if isinstance(orig.func, (ast.Name, ast.Attribute)) else None
    if s is None or s.kind != 'func':
      return None
    callee: index.FuncInfo = s.obj
    if callee.fq == caller.fq:
      return None
    rets = [n for n in common.walk_no_nested(callee.node) if isinstance(n, ast.Return) and n.value is not None]
    if len(rets) != 1:
      return None
    # body must be straight-line assignments (+ docstring) before the return
    for st in callee.node.body:
      if isinstance(st, (ast.Assign, ast.AnnAssign, ast.Return)):
        continue
      if isinstance(st, ast.Expr) and isinstance(st.value, ast.Constant):
        continue
      return None
    binding: dict[str, ast.AST] = {}
    pos = callee.pos_params
    for p, a in zip(pos, new.args):
      binding[p] = a
    for k in new.keywords:
      if k.arg:
        binding[k.arg] = k.value
    for p in callee.params:
      name = p.lstrip('*')
      if name not in binding:
        d = callee.param_default(name)
        if d is not None:
          binding[name] = d
    return self.inline(callee, rets[0].value, depth + 1, subst=binding)


def norm(node: ast.AST) -> str:
  """Normal form for sibling comparison: unparse with whitespace collapsed."""
  try:
    return ' '.join(ast.unparse(node).split())
  except Exception:  # pylint: disable=broad-except
    return ast.dump(node)


def names_in(node: ast.AST) -> set[str]:
  return {n.id for n in ast.walk(node) if isinstance(n, ast.Name)}


def attr_chains_in(node: ast.AST) -> set[str]:
  out = set()
  for n in ast.walk(node):
    if isinstance(n, (ast.Attribute, ast.Name)):
      try:
        out.add(ast.unparse(n))
      except Exception:  # pylint: disable=broad-except
        pass
  return out


def calls_named(node: ast.AST, suffixes) -> list[ast.Call]:
  if isinstance(suffixes, str):
    suffixes = (suffixes,)
  out = []
  for n in ast.walk(node):
    if isinstance(n, ast.Call):
      name = common.call_name(n)
      if any(name == s or name.endswith('.' + s) for s in suffixes):
        out.append(n)
  return out
