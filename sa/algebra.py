"""Expression equivalence by evaluation of the expression TREE at random rational points.

`same(a, b)` decides whether two arithmetic `ast` expressions denote the same
rational function of their free symbols (attribute chains, names, constant
subscripts), treating every non-arithmetic call as an uninterpreted function
(commutative for np.maximum/np.minimum). This is polynomial identity testing
(Schwartz-Zippel): both trees are evaluated with exact Fractions at several
pseudo-random points; no repository code is executed.
"""
from __future__ import annotations

import ast
import hashlib
from fractions import Fraction
from typing import Optional

ARITH_CALLS = {
    'np.multiply': '*', 'np.add': '+', 'np.subtract': '-', 'np.divide': '/',
    'np.true_divide': '/', 'numpy.multiply': '*', 'numpy.add': '+',
    'numpy.subtract': '-', 'numpy.divide': '/', 'np.negative': 'neg',
}
COMMUTATIVE = {'np.maximum', 'np.minimum', 'max', 'min', 'numpy.maximum', 'numpy.minimum'}
TRANSPARENT = {'np.array', 'np.asarray', 'float', 'np.float32', 'np.float64', 'np.squeeze', 'np.expand_dims', 'cast'}
ZERO_LIKE = {'np.zeros_like', 'numpy.zeros_like'}
ONE_LIKE = {'np.ones_like', 'numpy.ones_like'}
P = (1 << 61) - 1


class NotArithmetic(Exception):
  pass


def _h(*parts) -> Fraction:
  d = hashlib.sha256(repr(parts).encode()).digest()
  n = int.from_bytes(d[:8], 'big') % 1000003 + 7
  m = int.from_bytes(d[8:12], 'big') % 997 + 3
  return Fraction(n, m)


def _sym_key(node: ast.AST, alias: dict[str, str]) -> str:
  txt = ' '.join(ast.unparse(node).split())
  return alias.get(txt, txt)


def evaluate(node: ast.AST, point: int, alias: Optional[dict[str, str]] = None,
             transparent=frozenset()) -> Fraction:
  alias = alias or {}

  def ev(n) -> Fraction:
    if isinstance(n, ast.Constant):
      if isinstance(n.value, bool):
        return Fraction(int(n.value))
      if isinstance(n.value, (int, float)):
        return Fraction(str(n.value)) if isinstance(n.value, float) else Fraction(n.value)
      return _h('const', repr(n.value))
    if isinstance(n, ast.UnaryOp):
      v = ev(n.operand)
      if isinstance(n.op, ast.USub):
        return -v
      if isinstance(n.op, ast.UAdd):
        return v
      return _h('unary', type(n.op).__name__, v)
    if isinstance(n, ast.BinOp):
      a, b = ev(n.left), ev(n.right)
      if isinstance(n.op, ast.Add):
        return a + b
      if isinstance(n.op, ast.Sub):
        return a - b
      if isinstance(n.op, ast.Mult):
        return a * b
      if isinstance(n.op, ast.Div):
        if b == 0:
          return _h('div0', a)
        return a / b
      if isinstance(n.op, ast.Pow) and b.denominator == 1 and abs(b) <= 64:
        if a == 0 and b < 0:
          return _h('pow0')
        return a ** int(b)
      if isinstance(n.op, ast.LShift) and a.denominator == 1 and b.denominator == 1 and 0 <= b <= 64:
        return Fraction(int(a) << int(b))
      return _h('binop', type(n.op).__name__, a, b)
    if isinstance(n, ast.Call):
      name = ' '.join(ast.unparse(n.func).split())
      args = [ev(a) for a in n.args]
      if name in ARITH_CALLS and len(args) >= (1 if ARITH_CALLS[name] == 'neg' else 2):
        op = ARITH_CALLS[name]
        if op == '*':
          return args[0] * args[1]
        if op == '+':
          return args[0] + args[1]
        if op == '-':
          return args[0] - args[1]
        if op == '/':
          return args[0] / args[1] if args[1] != 0 else _h('div0', args[0])
        return -args[0]
      if name in TRANSPARENT or name in transparent:
        return args[0] if args else _h('call', name)
      if name in ZERO_LIKE:
        return Fraction(0)
      if name in ONE_LIKE:
        return Fraction(1)
      if isinstance(n.func, ast.Attribute) and n.func.attr in ('astype', 'item', 'flatten', 'copy') and (
          'astype' in transparent or n.func.attr in ('item', 'flatten', 'copy')):
        return ev(n.func.value)
      kws = tuple(sorted((k.arg or '**', ev(k.value)) for k in n.keywords if k.arg not in ('dtype', 'keepdims', 'axis')))
      if name in COMMUTATIVE:
        args = sorted(args)
      if isinstance(n.func, ast.Attribute) and not name.startswith(('np.', 'numpy.', 'math.')):
        recv = ev(n.func.value)
        return _h('method', n.func.attr, recv, tuple(args), kws)
      return _h('call', alias.get(name, name), tuple(args), kws)
    if isinstance(n, (ast.Name, ast.Attribute, ast.Subscript)):
      return _h('sym', _sym_key(n, alias), point)
    if isinstance(n, ast.IfExp):
      return _h('ifexp', ev(n.test), ev(n.body), ev(n.orelse))
    if isinstance(n, ast.Compare):
      return _h('cmp', tuple(type(o).__name__ for o in n.ops), ev(n.left), tuple(ev(c) for c in n.comparators))
    if isinstance(n, (ast.Tuple, ast.List)):
      return _h('seq', tuple(ev(e) for e in n.elts))
    raise NotArithmetic(ast.unparse(n)[:60])

  return ev(node)


def same(a: ast.AST, b, alias: Optional[dict[str, str]] = None, points: int = 6,
         transparent=frozenset()) -> bool:
  if isinstance(b, str):
    b = ast.parse(b, mode='eval').body
  if isinstance(a, str):
    a = ast.parse(a, mode='eval').body
  for p in range(points):
    try:
      if evaluate(a, p, alias, transparent) != evaluate(b, p, alias, transparent):
        return False
    except NotArithmetic:
      return False
  return True
