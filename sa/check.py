"""Entry point: /venv/bin/python -m sa.check <Cxx> --tier quick|thorough.

Exit 0: every armed rule held (listed known findings are printed).
Exit 1: a violation that known_findings.txt does not list (VIOLATION line).
Exit 2: ANALYSIS-ERROR - the analysis could not decide (never a silent pass).
"""
from __future__ import annotations

import argparse
import ast
import importlib
import inspect
import textwrap
import json
import os
import sys
import time
import traceback

from sa import index
from sa import report

EXPLANATIONS = {}


def run_rules(prop: str, repo: index.Repo, tier: str, seed: int,
              quiet: bool) -> report.Ctx:
  mod = importlib.import_module(f'sa.rules.{prop.lower()}')
  ctx = report.Ctx(prop, repo, tier, seed, quiet)
  ctx.analysis_errors = []
  # The statements of <module>.run are executed one by one so that a rule that
  # cannot decide (AnalysisError) does not discard what the other rules found.
  lines, first = inspect.getsourcelines(mod.run)
  fn = ast.parse(textwrap.dedent(''.join(lines))).body[0]
  ast.increment_lineno(fn, first - 1)
  scope = dict(mod.__dict__)
  scope['ctx'] = ctx
  failed_names = set()
  for st in fn.body:
    code = compile(ast.Module(body=[st], type_ignores=[]), mod.__file__, 'exec')
    try:
      exec(code, scope)  # pylint: disable=exec-used
    except index.AnalysisError as e:
      from sa import advisory  # pylint: disable=g-import-not-at-top
      rid = str(e).split(':')[0].strip()
      if rid in advisory.ADVISORY or rid.rstrip('c') in advisory.ADVISORY:
        if not hasattr(ctx, 'notes'):
          ctx.notes = []
        ctx.notes.append(f'NOTE property={prop} rule={rid} {str(e)[:220]} (construction rule, advisory)')
      else:
        ctx.analysis_errors.append(str(e))
      failed_names |= {n.id for n in ast.walk(st) if isinstance(n, ast.Name) and isinstance(n.ctx, ast.Store)}
    except NameError as e:
      if getattr(e, 'name', None) in failed_names:
        continue  # depends on a rule that could not decide
      raise
  return ctx


_BASE = None


def _run_variant(args):
  """Worker: analyse one catalogue variant (in memory) and classify it."""
  prop, mid, seed = args
  from sa import mutants  # pylint: disable=g-import-not-at-top

  m = next(x for x in mutants.for_property(prop) if x.id == mid)
  base = _BASE
  overlay = m.apply(base)
  if overlay is None:
    return ('skipped', m.id, None)
  try:
    variant = index.Repo(base.root, overlay=overlay, base=base)
    ctx = run_rules(prop, variant, 'quick', seed, quiet=True)
    fired = sorted({v.rule for v in ctx.violations})
    err = '; '.join(ctx.analysis_errors) or None
    if err is None:
      ctx.check_floors()
  except index.AnalysisError as e:
    fired = []
    err = str(e)
  except Exception as e:  # pylint: disable=broad-except
    fired = []
    err = f'internal {type(e).__name__}: {e}'
    if m.kind == 'break' and not m.allow_error:
      return ('problem', m.id, f'variant {m.id}: {err}')
  if m.kind == 'break':
    if fired:   # (any deciding rule of the property; advisory construction rules never count - they are not in ctx.violations)
      return ('caught', m.id, {'id': m.id, 'rules': fired})
    if err is not None and m.allow_error:
      return ('caught', m.id, {'id': m.id, 'analysis_error': err[:200]})
    return ('problem', m.id,
            f'variant {m.id} ({m.note}) expected one of {list(m.rules)}, got '
            f'{fired or err}')
  if fired or err:
    return ('problem', m.id,
            f'behaviour-preserving twin {m.id} ({m.note}) raised {fired or err}')
  return ('silent_ok', m.id, m.id)


def selftest(prop: str, base: index.Repo, tier: str, seed: int):
  """Positive controls (quick) / whole catalogue (thorough) on overlay variants."""
  global _BASE
  from sa import mutants  # pylint: disable=g-import-not-at-top

  cat = mutants.for_property(prop)
  if tier == 'quick':
    cat = [m for m in cat if m.control]
  results = {'applied': 0, 'skipped': [], 'caught': [], 'silent_ok': [],
             'problems': []}
  _BASE = base
  jobs = [(prop, m.id, seed) for m in cat]
  workers = min(16, os.cpu_count() or 1, len(jobs))
  if workers > 1 and tier == 'thorough':
    import multiprocessing  # pylint: disable=g-import-not-at-top

    with multiprocessing.get_context('fork').Pool(workers) as pool:
      outs = pool.map(_run_variant, jobs, chunksize=1)
  else:
    outs = [_run_variant(j) for j in jobs]
  for kind, mid, payload in outs:
    if kind == 'skipped':
      results['skipped'].append(mid)
      continue
    results['applied'] += 1
    if kind == 'caught':
      results['caught'].append(payload)
    elif kind == 'silent_ok':
      results['silent_ok'].append(payload)
    else:
      results['problems'].append(payload)
  return results, len(cat)


def main(argv=None) -> int:
  ap = argparse.ArgumentParser()
  ap.add_argument('prop')
  ap.add_argument('--tier', default=os.environ.get('VERIF_TIER', 'quick'),
                  choices=['quick', 'thorough'])
  ap.add_argument('--replay', default=None)
  ap.add_argument('--no-selftest', action='store_true')
  ap.add_argument('--no-write', action='store_true')
  args = ap.parse_args(argv)
  prop = args.prop.upper()
  seed = int(os.environ.get('VERIF_SEED', '0') or 0)
  t0 = time.time()
  try:
    repo = index.load_repo()
    print(
        f'sa.check {prop} tier={args.tier} repo={repo.root} '
        f'digest={repo.digest()} analysed={repo.stats()}'
    )
    ctx = run_rules(prop, repo, args.tier, seed, quiet=False)
    if ctx.analysis_errors:
      if not ctx.violations:
        raise index.AnalysisError('; '.join(ctx.analysis_errors))
      # some rules could not decide, others report: the violations stand
      for e in ctx.analysis_errors:
        print(f'ANALYSIS-ERROR property={prop} (rule skipped, other rules report below): {e}')
      for rs in ctx.rules.values():
        rs.floor = 0
      args.no_selftest = True
    if args.replay:
      with open(args.replay, 'r', encoding='utf-8') as f:
        want = json.load(f)
      ctx.violations = [
          v for v in ctx.violations
          if v.rule == want['rule'] and v.key == want['key']
      ]
      print(f'replay {want["rule"]} {want["key"]}: '
            + ('still violated' if ctx.violations else 'no longer violated'))
    if not args.no_selftest and not args.replay:
      st, total = selftest(prop, repo, args.tier, seed)
      ctx.extra['selftest'] = st | {'catalogue': total}
      print(
          f'  selftest[{args.tier}]: {len(st["caught"])} variants caught, '
          f'{len(st["silent_ok"])} twins silent, {len(st["skipped"])} skipped '
          f'(anchor text gone), {len(st["problems"])} problems'
      )
      if st['problems']:
        raise index.AnalysisError('self-test: ' + '; '.join(st['problems']))
      if total and not st['applied']:
        raise index.AnalysisError(
            'self-test: no catalogue variant could be applied to this tree'
        )
    mod = importlib.import_module(f'sa.rules.{prop.lower()}')
    code = report.finish(
        ctx, t0, write=not args.no_write,
        explanation=getattr(mod, 'EXPLANATION', ''),
    )
    return code
  except index.AnalysisError as e:
    print(f'ANALYSIS-ERROR property={prop}: {e}')
    return 2
  except Exception as e:  # pylint: disable=broad-except
    traceback.print_exc()
    print(f'ANALYSIS-ERROR property={prop}: internal error {type(e).__name__}: {e}')
    return 2


if __name__ == '__main__':
  sys.exit(main())
