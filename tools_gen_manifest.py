"""Regenerates MANIFEST.json from the rule modules that exist (run by hand)."""
import importlib
import json
import os

HERE = os.path.dirname(os.path.abspath(__file__))
ALL = ['C%02d' % i for i in range(1, 20)]
NA = {
    'C06': 'equivalence of two programs as executed by the LiteRT interpreter for all inputs; kernel arithmetic and the runtime\'s dynamic activation quantisation are not source this analysis can read, and no code-shape fact implies numerical agreement (structural preconditions are decided under C03/C04/C05, not relabelled)',
    'C07': 'a numerical closeness bound between integer and float execution on calibrated inputs; quantifies over tensor values and kernel arithmetic, which have no static handle here',
}
NOTES = {}
checks = []
na = []
for pid in ALL:
  if pid in NA:
    na.append({'property_id': pid, 'reason': NA[pid]})
    continue
  path = os.path.join(HERE, 'sa', 'rules', pid.lower() + '.py')
  if not os.path.exists(path):
    na.append({'property_id': pid, 'reason': 'static check not built yet in this session (design in DESIGN.md section 4); not claimed until it exists'})
    continue
  mod = importlib.import_module('sa.rules.' + pid.lower())
  checks.append({
      'property_id': pid,
      'quick_cmd': f'/venv/bin/python -m sa.check {pid} --tier quick',
      'thorough_cmd': f'/venv/bin/python -m sa.check {pid} --tier thorough',
      'evidence_file': f'/verif/evidence/{pid}.json',
      'replay_cmd_template': f'/venv/bin/python -m sa.check {pid} --replay {{path}}',
      'engine': 'sa',
      'level_claimed': {
          'category': 'other',
          'text': mod.LEVEL_TEXT,
          'design_ref': f'DESIGN.md section 4, {pid}',
      },
      'level_note': mod.LEVEL_NOTE + ' The source is analysed in a canonical form (sa/normalize.py); construction obligations that were seen to report on behaviour-preserving refactorings are advisory (sa/advisory.py: printed as NOTE, decided by the named tables instead); a table row the interpreter cannot decide is an ANALYSIS-ERROR, never a VIOLATION.',
      'technique': mod.TECHNIQUE,
  })
manifest = {
    'version': 1,
    'setup_cmd': 'cd /verif && /venv/bin/python -c "import ast, sa.check; print(\'sa ready\')"',
    'hooks': {
        'guard': 'AI_EDGE_QUANTIZER_VERIF',
        'enable': 'none needed: the checks read the source (including the large-model branch) and never run the repository; no hook commits exist',
        'baseline_off_cmd': 'cd /repo && /venv/bin/python -m pytest -ra -q -p no:cacheprovider --timeout=900 --continue-on-collection-errors',
        'source_commits': [],
        'add_only': True,
    },
    'engines': [{
        'name': 'sa',
        'path': '/verif/sa',
        'serves_properties': [c['property_id'] for c in checks],
        'kind_free_text': 'repository-specific static analysis on Python ast: symbol index, constant folding, resolved call graph, statement CFG/dominators, alias-effect summaries, decision-table extraction by path enumeration over finite domains, sibling/normal-form comparison; no repository code is imported or executed',
    }],
    'checks': checks,
    'not_applicable': na,
    'notes': 'All checks are static (family: static analysis). Exit 2 + ANALYSIS-ERROR means the analysis could not decide (vanished anchor / unknown idiom); it is never reported as a pass. known_findings.txt lists 11 repaired defects (fix: commits in /repo) and no open finding.',
}
with open(os.path.join(HERE, 'MANIFEST.json'), 'w') as f:
  json.dump(manifest, f, indent=1)
print('checks', [c['property_id'] for c in checks], 'na', [n['property_id'] for n in na])
